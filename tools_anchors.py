#!/venv/bin/python
"""Resolve the line ranges each property is anchored in (properties.jsonl, line numbers of the
pinned commit) to function names, so that vf.cover can report - on the *current* tree, whose line
numbers have moved with every fix - which of the anchored functions and lines the monitored
workloads actually executed.  Writes anchors.json (committed; regenerate only if the properties
file changes, which it must not)."""
import ast
import json
import os
import re
import subprocess

VERIF = os.path.dirname(os.path.abspath(__file__))
BASE = '2a59a64'      # the pinned tree the anchors were written against (before any fix: commit)
TOK = re.compile(r'(?P<path>[\w/.-]+\.py)|(?<![\w.])(?P<a>\d+)(?:-(?P<b>\d+))?(?![\w.])')


def functions(src):
    out = []

    def walk(node, prefix):
        for n in ast.iter_child_nodes(node):
            if isinstance(n, (ast.FunctionDef, ast.AsyncFunctionDef)):
                q = prefix + n.name
                out.append((q, n.lineno, n.end_lineno))
                walk(n, q + '.<locals>.')
            elif isinstance(n, ast.ClassDef):
                walk(n, prefix + n.name + '.')
            else:
                walk(n, prefix)
    walk(ast.parse(src), '')
    return out


def main():
    res = {}
    cache = {}
    for line in open(os.path.join(VERIF, 'properties.jsonl')):
        p = json.loads(line)
        a = p['anchors']
        found = []
        for m in a.get('mechanism', []) + a.get('state', []):
            cur = None
            for t in TOK.finditer(m.get('where', '')):
                if t.group('path'):
                    cur = t.group('path')
                    continue
                if not cur or not cur.startswith('athlib/'):
                    continue
                lo = int(t.group('a'))
                hi = int(t.group('b') or lo)
                if cur not in cache:
                    src = subprocess.run(['git', '-C', '/repo', 'show', '%s:%s' % (BASE, cur)], capture_output=True, text=True).stdout
                    cache[cur] = functions(src)
                for q, s, e in cache[cur]:
                    if s <= hi and e >= lo and [cur, q] not in found:
                        found.append([cur, q])
        res[p['id']] = sorted(found)
    with open(os.path.join(VERIF, 'anchors.json'), 'w') as f:
        json.dump({'base_commit': BASE, 'functions': res}, f, indent=1, sort_keys=True)
    for k, v in res.items():
        print(k, len(v), ' '.join('%s:%s' % (os.path.basename(f), q) for f, q in v)[:300])


if __name__ == '__main__':
    main()
