#!/bin/bash
# usage: ./run_all.sh quick|thorough [ID...]   - runs the checks one after the other, prints a summary line each
cd "$(dirname "$0")" || exit 2
TIER=${1:-quick}; shift
IDS=${@:-C01 C02 C03 C04 C05 C06 C07 C08 C09 C10 C11 C12 C13 C14 C15 C16 C17 C18 C19}
mkdir -p logs
for P in $IDS; do
  s=$(date +%s)
  ./check $P --tier $TIER > logs/$P.$TIER.log 2>&1; rc=$?
  e=$(date +%s)
  echo "$P $TIER rc=$rc $((e-s))s $(grep -c '^KNOWN-FINDING' logs/$P.$TIER.log) known $(grep -c '^VIOLATION' logs/$P.$TIER.log) violations | $(tail -1 logs/$P.$TIER.log | cut -c1-150)"
done
