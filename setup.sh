#!/bin/bash
# MANIFEST.setup_cmd: nothing is built or installed - the checks import athlib from /repo's working tree with
# /venv/bin/python and load js/src in place under node.  This only verifies that the interpreters and the two
# third-party modules the monitors use (both already in /venv) are present.
cd "$(dirname "$0")" || exit 1
set -e
/venv/bin/python -c "import sortedcontainers, jsonschema, sys; print('python', sys.version.split()[0], 'sortedcontainers', sortedcontainers.__version__, 'jsonschema', jsonschema.__version__)"
node --version
mkdir -p evidence replays
