#!/bin/bash
# MANIFEST.setup_cmd: offline install of the contract libraries beside the repo's interpreter.
cd "$(dirname "$0")" || exit 1
set -e
/venv/bin/pip install --no-index --find-links /opt/veriftools/wheels --target .deps -q deal icontract
PYTHONPATH=.deps /venv/bin/python -c "import icontract, deal; print('icontract', icontract.__version__, 'deal', deal.__version__)"
node --version
mkdir -p evidence replays
