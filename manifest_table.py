# property table for tools_manifest.py
add('C01', 'recorder on the real athlon_score + exact Decimal oracle over grid sweeps',
    'Every observed call of the real score function on a 0.01-grid mark is compared with an exact-arithmetic evaluation of the published formula; quick sweeps boundary windows, strided and random marks and 16 ages for all rows, thorough the complete grid and ages 1..110. Held-on-what-was-executed, not a proof.',
    'Trusts the pinned copy of the published coefficients and the 60-digit Decimal power near integer boundaries.', 'C01')
add('C09', 'recorder on the real inverse function, two-sided condition decided with the real score; exhaustive targets',
    'Every row x every integer target of the stated range is executed; the answer and its next-worse grid neighbour are scored with the real forward function. Exhaustive over the target range named by the property; unknown pairs and negative targets included.',
    'The real athlon_score is the oracle (the property relates the two functions); C01 establishes that function separately.', 'C09')
add('C06', 'recorders on round_up_str_num / format_seconds_as_time / parse_hms with integer/Fraction oracles over enumerated strings and duration grids',
    'Enumerates the digit-string domain (bounded fraction alphabets beyond 3-4 digits), the 0.001 s grid with hour/minute carry windows and float residues, and 1-3 field h:m:s strings plus junk; each observed call judged online. Exploration, not proof.',
    'Digits beyond the fifth decimal treated as noise exactly as the property says; float comparisons use 1e-9 slack.', 'C06')
add('C13', 'recorder on the real calc_uka_age_group + rule-text oracle with own date arithmetic, monotonicity and option/representation twin monitors',
    'All boundary birth dates (within 3 days of every cut-off anniversary for every group-changing age) and strided background dates for 140 (quick) / all 1461 (thorough) match dates of a leap cycle x 3 categories x options, plus complete day-by-day sweeps for sampled match dates.',
    'TF equality asserted 1 Jan-30 Sep, XC equality not asserted 1-30 Sep (season reading ambiguous); structural clauses for all dates.', 'C13')
add('C04', 'pattern proxies on every exported PAT_* + set-algebra oracle on the real match vector; bounded-exhaustive and grammar-derived strings',
    'Every distinct string any library pattern is asked about is judged on the whole family vector: unions exact, four measurement kinds pairwise disjoint, first-match classifiers consistent with the kind. Bounded exhaustive (length <= 3 over the partition alphabet; deeper in thorough) plus syntax-tree samples, mutants and splices.',
    'Language equality without length bound cannot be decided by execution; strings beyond the enumeration bound are sampled from the patterns own syntax trees.', 'C04')
add('C07', 'recorder on the real normalize_event_code; closure/idempotence/refusal judged online, equivalence classes from a denotation-preserving variant generator',
    'Codes from the syntax tree of the current patterns and all scoring-table keys, each with its case/whitespace/suffix/trailing-zero variants, plus near-miss strings; every observed call judged.',
    'Variants are equivalent by construction of the rewrites and kept only when the real checker accepts them; family clause one-directional.', 'C07')
add('C17', 'recorders on get_specific_event_code / get_implement_weight; closure with the real checker and normaliser, independent weight parser, numeric band monitor, live table-key scan',
    'Exhaustive cross product of throws x gender x every label the library can produce plus arbitrary labels; all non-throw codes sampled from the syntax tree; every key of every scoring and grading table checked against the real checker.',
    'Masters monotonicity judged on the five-year bands only; labels without a tabulated weight must merely not raise.', 'C17')
add('C10', 'recorders on the seven sort/measure/classify functions; totality online, ordering on the list sorted by the real key, sorter permutation/stability monitor',
    'Codes generated from the syntax tree of the current patterns (ASCII and Unicode variants), table keys and customary codes through all seven functions; ordering clauses on the sorted list and 60k (quick) random pairs for the text key; seeded lists with repeated/missing disciplines for the sorter.',
    'Categories for the ordering clause come from the real family patterns; yard codes and ambiguous relay pairs unspecified.', 'C10')
add('C11', 'recorders on the four junior scoring functions + exact Fraction/Decimal oracles; table monitors executing the public function at every tabulated threshold',
    'Every table x tabulated age x marks around every threshold, below and beyond the table and seeded marks (whole grids in thorough) x all documented input forms, each observed call judged against rational arithmetic on the embedded table; ordering, holes, seam and reachability scans of every table row.',
    'The published table is the table embedded in the repository; transcription errors that keep a table ordered are invisible.', 'C11')
add('C05', 'recorders on all six scoring functions feeding an online sorted-map monotonicity monitor per table key, range monitor, Tyrving hand-vs-electronic pairing',
    'Adjacent marks on the 0.01 grid for every table key of every system (whole grids where small, boundary and seeded windows for long road events; whole grids in thorough), every insertion compared with both neighbours, so any observed inversion is found regardless of presentation order.',
    'Hungarian timed marks slower than the zero-point of the parabola are outside the property.', 'C05')
add('C14', 'recorders on the public WMA wrappers; definedness online, consistency relation on accessor values, spelling monitor keyed by canonical query, grade monotonicity monitor',
    'Both single-event tables and the combined-events table x 6 gender spellings x every tabulated event in both letter cases x boundary ages (every integer and half-integer age in thorough) x performances around the open best through the real wrappers.',
    'Domain (first non-null column, last column) read from the JSON files; combined-events grader judged on factor clauses only.', 'C14')
add('C15', 'recorders on wma_age_factor / wma_world_best; envelope oracle from the table\'s own distance column, open-best monotonicity monitor along the distance axis',
    'Whole-metre distances 20 m..400 km (all up to 30 km and every 37th beyond in quick; all in thorough) plus +-5 m around every tabulated distance and road spellings N[.dd]K / N[.dd]M, x gender x year x ages; every observed call judged against the bracketing rows.',
    'All rows tying for nearest shorter / longer contribute to the envelope, so neither reading of the track/road seam is imposed.', 'C15')
add('C12', 'recorder on the real check_performance_for_discipline with a custom error class; format/plausibility oracle per event kind, idempotence by a second real call',
    'Customary codes, loose names and codes sampled from every family pattern x an entry-text grammar (hand-written boundary entries plus seeded 1-3 field texts) x gender x precision option; every observed call judged for exception class, result format, speed / record plausibility and idempotence.',
    'Sanity limits are the documented ones (11 / 10 / 0.5 m/s, 120 % of record); refusing with the supplied class is always allowed.', 'C12')
add('C19', 'fresh-process outcome table as oracle; recorders on schema_valid / valid_against_schema compare every call of generated call sequences; audit hook for network access',
    'Every distinct call of the alphabet is first executed alone in a fresh interpreter; then all sequences of length <= 3 over each cache key, cross-key pairs and seeded long sequences overflowing the 20-entry caches are run in-process with every outcome compared with the table; a sample of sequences is re-run in fresh interpreters to validate the in-process reset.',
    'State reset between sequences = clearing the two module caches; exhaustive only over the per-key alphabets at length <= 3.', 'C19')
add('C18', 'differential monitor: the real Python functions vs their JavaScript twins loaded in place from js/src by a long-lived node bridge, over the C06/C11 grids',
    'Each of the seven ported pairs is driven with the same inputs on both sides (decimal strings x precision, durations x precision, documented h:m:s strings, mark spellings, every scoring-table key and spelling variants, every Tyrving table x age x marks x forms incl. hand-timed tenths, every QuadKids row); values compared numerically / exactly, refusal compared with refusal.',
    'Only the import lines of js/src are rewritten (to require()); JS and Python doubles agree via JSON shortest round-trip text.', 'C18')
add('C02', 'recorder with before/after snapshots on the six mutators of the real HighJumpCompetition; shadow-log rule book, state-order and structural invariant monitors; bounded BFS of the real object + random walks',
    'At every distinct reachable state of the real object (2 athletes, 2 regular + 1 jump-off heights in quick; deeper and 3 athletes in thorough) the whole legal and illegal alphabet is applied: refusals must be RuleViolation and leave the full snapshot untouched, acceptance/refusal must agree with the rule text where it is determinate, state only moves forward. Random walks with up to 4 athletes beyond the bound.',
    'Three regions the rule text leaves open are carved out (recorded, not judged on accept/refuse); depth beyond the bound is sampled.', 'C02')
add('C03', 'terminal-state hook of the recorder: places and bests recomputed from the shadow cards (own countback, jump-off survivor) for every finished / won / drawn state reached',
    'All complete competitions reachable by rule-conforming continuations within the bound (2 athletes 2+2, 3 athletes 1+1 in quick; deeper in thorough) plus seeded random complete competitions with up to 4 athletes, 4+3 heights and random jumping orders; evidence counts terminal states by kind and countback level needed.',
    'Order among beaten jump-off participants not judged; degenerate jump-offs among athletes with no clearance unspecified.', 'C03')
add('C08', 'replay monitors at reachable states: from_actions on the full snapshot, card export/import and per-height re-orderings compared on state/heights/cards/bests/places',
    'States from the full-alphabet BFS (so logs coexist with refused calls), random walks and random complete competitions; every k-th accepted call triggers three independent re-executions of the real code, with all interleavings when there are at most 60 and 11 systematic/seeded ones otherwise.',
    'ranked_jumpers order and internal flags deliberately not compared for the card and re-ordering clauses.', 'C08')
add('C16', 'delay injection at athlib source lines: sys.settrace token-passing controller forcing chosen pre-emptions between real threads, sequential reference as oracle; free-running stress complement',
    'For ~46 scenarios (pairs and triples of calls on every piece of shared module state, first-call and warmed-up, caches empty and at their limit) every single pre-emption of each thread before each of its athlib line events is executed with the other thread run to completion inside the window, plus seeded two- and three-thread pre-emption schedules and stress rounds; each thread outcome compared with the single-threaded answer. Locks in athlib are replaced by cooperative proxies so that schedules pre-empting inside a critical section hand the token back instead of deadlocking.',
    'Granularity is the source line inside athlib; bound of two forced pre-emptions per pair; pre-emptions inside json/jsonschema/stdlib only by the stress mode.', 'C16')
_all = ['C%02d' % i for i in range(1, 20)]
for p in _all:
    if p not in CHECKS:
        NA.append(dict(property_id=p, reason='check not built yet in this snapshot (planned, see DESIGN.md section 3.%s)' % p))
