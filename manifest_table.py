# property table for tools_manifest.py
add('C01', 'recorder on the real athlon_score + exact Decimal oracle over grid sweeps',
    'Every observed call of the real score function on a 0.01-grid mark is compared with an exact-arithmetic evaluation of the published formula; quick sweeps boundary windows, strided and random marks and 16 ages for all rows, thorough the complete grid and ages 1..110. Held-on-what-was-executed, not a proof.',
    'Trusts the pinned copy of the published coefficients and the 60-digit Decimal power near integer boundaries.', 'C01')
_all = ['C%02d' % i for i in range(1, 20)]
for p in _all:
    if p not in CHECKS:
        NA.append(dict(property_id=p, reason='check not built yet in this snapshot (planned, see DESIGN.md section 3.%s)' % p))
