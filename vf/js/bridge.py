"""Python side of the node bridge (C18)."""
import json
import os
import shutil
import subprocess

from .. import core


class Bridge(object):
    def __init__(self):
        node = shutil.which('node') or '/usr/bin/node'
        self.p = subprocess.Popen([node, os.path.join(core.VERIF, 'vf', 'js', 'bridge.js'), os.path.join(core.REPO, 'js', 'src')],
                                  stdin=subprocess.PIPE, stdout=subprocess.PIPE, stderr=subprocess.PIPE, text=True, bufsize=1)
        hello = self.p.stdout.readline()
        if not hello:
            raise RuntimeError('node bridge did not start: %s' % self.p.stderr.read()[-800:])
        self.info = json.loads(hello)

    def call_many(self, reqs):
        self.p.stdin.write(json.dumps(reqs) + '\n')
        self.p.stdin.flush()
        line = self.p.stdout.readline()
        if not line:
            raise RuntimeError('node bridge died: %s' % self.p.stderr.read()[-800:])
        return json.loads(line)

    def close(self):
        try:
            self.p.stdin.close()
            self.p.wait(timeout=10)
        except Exception:
            self.p.kill()
