// Long-lived node process that loads <repo>/js/src in place and serves newline-delimited JSON.
// Files under js/src use ES `import {..} from '..'` lines but end in `module.exports = ...`; only the
// import lines are rewritten into require() (a missing named export becomes undefined, as under Babel).
const fs = require('fs'), path = require('path'), Module = require('module'), readline = require('readline');
const SRC = path.resolve(process.argv[2]);
function transform(code) {
  return code.replace(/import\s*\{([^}]*)\}\s*from\s*'([^']+)'\s*;/g,
    (m, names, p) => `const {${names}} = require('${p}');`);
}
const origJs = Module._extensions['.js'];
Module._extensions['.js'] = function (module, filename) {
  if (filename.startsWith(SRC + path.sep)) module._compile(transform(fs.readFileSync(filename, 'utf8')), filename);
  else origJs(module, filename);
};
const mods = Object.assign({}, require(path.join(SRC, 'utils.js')), require(path.join(SRC, 'tyrving_score.js')),
  require(path.join(SRC, 'qkids_score.js')));
process.stdout.write(JSON.stringify({ ready: Object.keys(mods).length, src: SRC }) + '\n');
const rl = readline.createInterface({ input: process.stdin, terminal: false });
rl.on('line', (line) => {
  const reqs = JSON.parse(line);
  const out = reqs.map(([fn, args]) => {
    try {
      const f = mods[fn];
      if (typeof f !== 'function') return { e: 'no such export ' + fn };
      const v = f(...args);
      if (typeof v === 'number' && !isFinite(v)) return { nan: String(v) };
      if (v === undefined) return { undef: 1 };
      return { v };
    } catch (e) { return { e: String(e && e.message).slice(0, 120) }; }
  });
  process.stdout.write(JSON.stringify(out) + '\n');
});
