"""Generator of a regex's language from its sre syntax tree (the *current* pattern text, so a
changed pattern changes the workload), plus near-miss mutation and the partition alphabet.

Every BRANCH / optional / repeat / character-class node cycles through its choices with its own
counter (so each alternative, each option present/absent and each class member is produced
early and repeatedly), the remaining freedom is filled from a seeded RNG.
"""
import random
import re
try:
    import re._parser as sp
    import re._constants as sc
except ImportError:      # pragma: no cover
    import sre_parse as sp
    import sre_constants as sc

WS_ALL = [' ', '\t', '\n', '\x0b', '\x0c', '\r', '\x1c', '\x1d', '\x1e', '\x1f', '\x85', '\xa0', ' ', '　']
DIG_ASCII = list('0123456789')
DIG_OTHER = ['٣', '５']          # ARABIC-INDIC THREE, FULLWIDTH FIVE
# non-ASCII characters that case-fold onto an ASCII letter (what re.IGNORECASE accepts for it)
FOLDS_ONTO = {'s': ['\u017f'], 'k': ['\u212a'], 'i': ['\u0130', '\u0131']}


def class_chars(items, ascii_only=False):
    out = []
    neg = False
    for op, av in items:
        if op is sc.NEGATE:
            neg = True
        elif op is sc.LITERAL:
            out.append(chr(av))
        elif op is sc.RANGE:
            out.extend(chr(c) for c in range(av[0], av[1] + 1))
        elif op is sc.CATEGORY:
            if av is sc.CATEGORY_DIGIT:
                out.extend(DIG_ASCII if ascii_only else DIG_ASCII + DIG_OTHER)
            elif av is sc.CATEGORY_SPACE:
                out.extend([' '] if ascii_only else WS_ALL)
            elif av is sc.CATEGORY_WORD:
                out.extend(list('aZ09_'))
            else:
                raise NotImplementedError(av)
        else:
            raise NotImplementedError(op)
    if neg:
        pool = [c for c in ('a', 'Z', '0', ' ', '-', 'é') if c not in out]
        return pool or ['é']
    return out


class Gen(object):
    def __init__(self, pattern, seed=0, ascii_only=False, maxrep=3, ws_mode='all', long_repeats=()):
        self.text = pattern.pattern if hasattr(pattern, 'pattern') else pattern
        self.tree = sp.parse(self.text)
        self.rnd = random.Random(seed)
        self.ascii_only = ascii_only
        self.maxrep = maxrep
        self.long_repeats = tuple(long_repeats)     # extra counts tried for UNBOUNDED repeats (\d+, \s*): the language has no length bound
        self.counters = {}
        self.ws_mode = ws_mode
        self.flags = getattr(pattern, 'flags', 0) if hasattr(pattern, 'pattern') else 0
        self.groups_set = set()
        self.icase = False
        self.unsupported = set()

    def _cycle(self, node_id, n):
        c = self.counters.get(node_id, 0)
        self.counters[node_id] = c + 1
        # cycle deterministically for the first 2n visits, then random
        if c < 2 * n:
            return c % n
        return self.rnd.randrange(n)

    def _gen(self, tree, out, path):
        for idx, (op, av) in enumerate(tree):
            nid = path + (idx,)
            if op is sc.LITERAL:
                ch = chr(av)
                if self.icase and ch.isalpha():
                    forms = [ch.lower(), ch.upper()] + FOLDS_ONTO.get(ch.lower(), [])
                    ch = forms[self._cycle(nid, len(forms))]
                out.append(ch)
            elif op is sc.NOT_LITERAL:
                out.append('a' if chr(av) != 'a' else 'b')
            elif op is sc.ANY:
                out.append(self.rnd.choice('a0 .'))
            elif op is sc.IN:
                ch = class_chars(av, self.ascii_only)
                out.append(ch[self._cycle(nid, len(ch))])
            elif op is sc.CATEGORY:
                ch = class_chars([(op, av)], self.ascii_only)
                out.append(ch[self._cycle(nid, len(ch))])
            elif op is sc.BRANCH:
                alts = av[1]
                k = self._cycle(nid, len(alts))
                self._gen(alts[k], out, nid + (k,))
            elif op is sc.SUBPATTERN:
                # (group number, flags switched on, flags switched off, items): a scoped (?i:...) makes the literals inside
                # match their other case as well - including the non-ASCII characters that fold onto them
                was = self.icase
                if av[1] & re.IGNORECASE:
                    self.icase = True
                if av[2] & re.IGNORECASE:
                    self.icase = False
                self._gen(av[3], out, nid)
                self.icase = was
                if av[0] is not None:
                    self.groups_set.add(av[0])
            elif op is sc.GROUPREF_EXISTS:
                # (?(n)yes|no): which branch applies depends on whether group n took part in THIS pattern's numbering -
                # a conditional pasted into another pattern by a textual join refers to another group there
                grp, yes, no = av
                if grp in self.groups_set:
                    self._gen(yes, out, nid + (0,))
                elif no is not None:
                    self._gen(no, out, nid + (1,))
            elif getattr(sc, 'ATOMIC_GROUP', None) is not None and op is sc.ATOMIC_GROUP:
                self._gen(av, out, nid)
            elif op in (sc.ASSERT, sc.ASSERT_NOT):
                pass            # look-around: nothing is consumed (the sample may then simply not match)
            elif op in (sc.MAX_REPEAT, sc.MIN_REPEAT) or op is getattr(sc, 'POSSESSIVE_REPEAT', None):
                lo, hi, sub = av
                unbounded = hi is sc.MAXREPEAT
                if hi is sc.MAXREPEAT or hi > lo + self.maxrep:
                    hi = lo + self.maxrep
                opts = list(range(lo, hi + 1))
                if unbounded and self.long_repeats:
                    opts += [lo + x for x in self.long_repeats]
                n = opts[self._cycle(nid, len(opts))]
                for r in range(n):
                    self._gen(sub, out, nid + (min(r, 2),))
            elif op is sc.AT:
                pass
            elif op is sc.GROUPREF:
                pass
            else:
                self.unsupported.add(str(op))      # a construct this generator does not know: skipped, never a crash

    def one(self):
        out = []
        self.groups_set = set()
        self.icase = bool(self.flags & re.IGNORECASE)
        self._gen(self.tree, out, ())
        return ''.join(out)

    def many(self, n):
        seen = set()
        tries = 0
        while len(seen) < n and tries < n * 6:
            tries += 1
            s = self.one()
            if s not in seen:
                seen.add(s)
                yield s


def literal_alphabet(patterns):
    """Partition alphabet induced by the patterns: every literal / class member they mention,
    all ASCII digits, one non-ASCII digit, every whitespace character, a foreign letter and a
    few punctuation marks."""
    chars = set()

    def walk(tree):
        for op, av in tree:
            if op is sc.LITERAL:
                chars.add(chr(av))
            elif op is sc.IN:
                for o2, a2 in av:
                    if o2 is sc.LITERAL:
                        chars.add(chr(a2))
                    elif o2 is sc.RANGE:
                        chars.update(chr(c) for c in range(a2[0], a2[1] + 1))
            elif op is sc.BRANCH:
                for alt in av[1]:
                    walk(alt)
            elif op is sc.SUBPATTERN:
                walk(av[3])
            elif op in (sc.MAX_REPEAT, sc.MIN_REPEAT) or op is getattr(sc, 'POSSESSIVE_REPEAT', None):
                walk(av[2])
            elif op is sc.GROUPREF_EXISTS:
                walk(av[1])
                if av[2] is not None:
                    walk(av[2])
            elif op in (sc.ASSERT, sc.ASSERT_NOT):
                walk(av[1])
            elif getattr(sc, 'ATOMIC_GROUP', None) is not None and op is sc.ATOMIC_GROUP:
                walk(av)
    for p in patterns:
        walk(sp.parse(p.pattern if hasattr(p, 'pattern') else p))
    letters = set(c for c in chars if c.isalpha())
    letters |= set(c.swapcase() for c in letters)
    return {
        'letters': sorted(letters),
        'digits': DIG_ASCII + DIG_OTHER[:1],
        'ws': list(WS_ALL),
        'punct': sorted(set(c for c in chars if not c.isalnum() and not c.isspace()) | {'.', ':', '-'}),
        # a letter no code uses, an accented one, a dotted capital I - and the invisible characters other languages' trim() or a
        # spreadsheet export deals in: byte-order mark, zero-width space / joiner, soft hyphen, left-to-right mark, word joiner
        'foreign': ['q', 'Q', 'é', 'İ', '\ufeff', '\u200b', '\u200d', '\u00ad', '\u200e', '\u2060'],
    }


def mutants(s, alphabet, rnd, k=6):
    """k single-edit near misses of s."""
    out = []
    if not s:
        return [rnd.choice(alphabet)]
    for _ in range(k):
        op = rnd.randrange(6)
        i = rnd.randrange(len(s))
        if op == 0:
            out.append(s[:i] + rnd.choice(alphabet) + s[i:])
        elif op == 1:
            out.append(s[:i] + s[i + 1:])
        elif op == 2:
            out.append(s[:i] + rnd.choice(alphabet) + s[i + 1:])
        elif op == 3:
            out.append(s[:i] + s[i].swapcase() + s[i + 1:])
        elif op == 4 and len(s) > 1:
            j = min(i, len(s) - 2)
            out.append(s[:j] + s[j + 1] + s[j] + s[j + 2:])
        else:
            out.append(s + rnd.choice(alphabet))
    return out


# Characters a string method treats like an ASCII one although a pattern's class does not (or the other way round):
# str.isdigit() is true for superscripts and circled digits that \d refuses; str.upper()/lower()/casefold() map the long s,
# the dotless i, the Kelvin sign and the ligatures onto ASCII letters; NFKC folds full-width forms.
LOOKALIKE = {
    '0': '⁰⓪', '1': '¹①⒈', '2': '²②', '3': '³③', '4': '⁴④', '5': '⁵⑤',
    '6': '⁶⑥', '7': '⁷⑦', '8': '⁸⑧', '9': '⁹⑨',
    's': 'ſ', 'S': 'ſ', 'k': 'K', 'K': 'K', 'i': 'ı', 'I': 'İ',
    'm': 'ｍ', 'M': 'Ｍ', 'h': 'ｈ', 'H': 'Ｈ', 'x': '×ｘ', 'X': '×Ｘ',
    '.': '．․', 'g': 'ｇ', 'G': 'Ｇ', 't': 'ｔ', 'T': 'Ｔ',
}


def lookalikes(s, rnd=None, cap=6):
    """Strings that differ from s only by look-alike characters: one position at a time (up to cap of them) and all at once."""
    pos = [i for i, ch in enumerate(s) if ch in LOOKALIKE]
    if not pos:
        return []
    if rnd is not None and len(pos) > cap:
        pos = rnd.sample(pos, cap)
    out = []
    for i in pos[:cap]:
        for sub in LOOKALIKE[s[i]][:2]:
            out.append(s[:i] + sub + s[i + 1:])
    out.append(''.join(LOOKALIKE[ch][0] if ch in LOOKALIKE else ch for ch in s))
    digs = ''.join(LOOKALIKE[ch][0] if ch.isdigit() and ch in LOOKALIKE else ch for ch in s)
    if digs != s:
        out.append(digs)
    return out
