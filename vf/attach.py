"""Attaching monitors to the real athlib code from the harness (no repository edits).

* ``monitor(owner, name, on_event)`` wraps the function object found at ``owner.name`` with a
  recorder that reports ``(args, kwargs, outcome)`` for returns *and* raises (icontract/deal
  never look at a raising call), then rebinds every alias of the original in all loaded
  ``athlib*`` modules (``from .x import f`` copies) so that library-internal calls are seen.
* ``contract(owner, name, pre/post...)`` does the same with icontract decorators.
* ``MonitoredPattern`` proxies a compiled regex (C objects cannot be wrapped).
"""
import functools
import sys
import types


class Outcome(object):
    __slots__ = ('kind', 'value')

    def __init__(self, kind, value):
        self.kind = kind      # 'return' | 'raise'
        self.value = value

    @property
    def ok(self):
        return self.kind == 'return'

    def key(self):
        if self.kind == 'return':
            return ('return', self.value)
        return ('raise', type(self.value).__name__)

    def __repr__(self):
        if self.kind == 'return':
            return 'return %r' % (self.value,)
        return 'raise %s(%s)' % (type(self.value).__name__, str(self.value)[:120])


def call(fn, *a, **k):
    """Run fn and capture its outcome."""
    try:
        return Outcome('return', fn(*a, **k))
    except Exception as e:       # noqa - we want every exception class
        return Outcome('raise', e)


def athlib_modules():
    return [m for n, m in list(sys.modules.items())
            if m is not None and (n == 'athlib' or n.startswith('athlib.'))]


def rebind(original, replacement):
    """Replace every module-global / class attribute that *is* original."""
    n = 0
    for m in athlib_modules():
        for k, v in list(vars(m).items()):
            if v is original:
                setattr(m, k, replacement)
                n += 1
            elif isinstance(v, type) and getattr(v, '__module__', '').startswith('athlib'):
                for ck, cv in list(vars(v).items()):
                    if cv is original:
                        setattr(v, ck, replacement)
                        n += 1
    return n


def monitor(owner, name, on_event, rebind_aliases=True):
    """Wrap owner.name (module or class attribute); on_event(args, kwargs, outcome)."""
    original = getattr(owner, name) if not isinstance(owner, type) else owner.__dict__[name]
    raw = original

    @functools.wraps(raw)
    def wrapper(*a, **k):
        try:
            r = raw(*a, **k)
        except Exception as e:  # noqa
            on_event(a, k, Outcome('raise', e))
            raise
        on_event(a, k, Outcome('return', r))
        return r
    wrapper.__vf_original__ = raw
    if rebind_aliases and not isinstance(owner, type):
        rebind(original, wrapper)
    setattr(owner, name, wrapper)
    return wrapper


def original(fn):
    return getattr(fn, '__vf_original__', fn)


class MonitoredPattern(object):
    """Proxy for a compiled re.Pattern reporting every string it is asked about."""

    def __init__(self, pat, name, on_string):
        self._pat = pat
        self._name = name
        self._on = on_string
        self.pattern = pat.pattern
        self.groupindex = pat.groupindex
        self.flags = pat.flags
        self.groups = pat.groups

    def match(self, s, *a):
        self._on(self._name, 'match', s)
        return self._pat.match(s, *a)

    def search(self, s, *a):
        self._on(self._name, 'search', s)
        return self._pat.search(s, *a)

    def fullmatch(self, s, *a):
        self._on(self._name, 'fullmatch', s)
        return self._pat.fullmatch(s, *a)

    def __getattr__(self, k):
        return getattr(self._pat, k)


def proxy_patterns(codes_module, on_string):
    """Replace every exported PAT_* of athlib.codes (and its aliases) with a proxy."""
    import re
    made = {}
    for k, v in list(vars(codes_module).items()):
        if k.startswith('PAT_') and isinstance(v, re.Pattern):
            p = MonitoredPattern(v, k, on_string)
            made[k] = (v, p)
    for k, (v, p) in made.items():
        rebind(v, p)
    return {k: v for k, (v, p) in made.items()}
