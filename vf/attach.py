"""Attaching monitors to the real athlib code from the harness (no repository edits).

* ``monitor(owner, name, on_event)`` wraps the function object found at ``owner.name`` with a
  recorder that reports ``(args, kwargs, outcome)`` for returns *and* raises (icontract/deal
  never look at a raising call), then rebinds every alias of the original in all loaded
  ``athlib*`` modules (``from .x import f`` copies) so that library-internal calls are seen.
* ``contract(owner, name, pre/post...)`` does the same with icontract decorators.
* ``MonitoredPattern`` proxies a compiled regex (C objects cannot be wrapped).
"""
import functools
import sys
import types


class Outcome(object):
    __slots__ = ('kind', 'value')

    def __init__(self, kind, value):
        self.kind = kind      # 'return' | 'raise'
        self.value = value

    @property
    def ok(self):
        return self.kind == 'return'

    def key(self):
        if self.kind == 'return':
            return ('return', self.value)
        return ('raise', type(self.value).__name__)

    def __repr__(self):
        if self.kind == 'return':
            return 'return %r' % (self.value,)
        return 'raise %s(%s)' % (type(self.value).__name__, str(self.value)[:120])


def call(fn, *a, **k):
    """Run fn and capture its outcome."""
    try:
        return Outcome('return', fn(*a, **k))
    except Exception as e:       # noqa - we want every exception class
        return Outcome('raise', e)


def athlib_modules():
    return [m for n, m in list(sys.modules.items())
            if m is not None and (n == 'athlib' or n.startswith('athlib.'))]


def rebind(original, replacement):
    """Replace every module-global / class attribute that *is* original."""
    n = 0
    for m in athlib_modules():
        for k, v in list(vars(m).items()):
            if v is original:
                setattr(m, k, replacement)
                n += 1
            elif isinstance(v, type) and getattr(v, '__module__', '').startswith('athlib'):
                for ck, cv in list(vars(v).items()):
                    if cv is original:
                        setattr(v, ck, replacement)
                        n += 1
    return n


# ---- determinism monitor ---------------------------------------------------------------------
# Every function a recorder is attached to is specified as a function of its arguments.  The recorder therefore also
# remembers (hashed) what each distinct call answered first and compares every later identical call with it, whatever was
# called in between; at the end of a shard a sample of the recorded calls is issued again in shuffled order.  A memo whose
# hit path differs from its miss path, a one-shot iterator consumed by the first call, state left behind by another call:
# all of them show up as "same call, different outcome" without the workload having to know where to look.
DET = {'ctx': None, 'recs': [], 'careless': True}
DET_CAP = 400000
DET_SAMPLE = 1200
FRESH_SAMPLE = 5000


class Determinism(object):
    def __init__(self, label):
        self.label = label
        self.first = {}
        self.sample = []
        self.fresh = []
        self.seen = 0
        self.calls = 0
        self.wrapper = None

    @staticmethod
    def outcome_key(out):
        if out.kind == 'raise':
            return 'raise ' + type(out.value).__name__
        try:
            r = repr(out.value)
        except Exception:
            return None
        return None if ' at 0x' in r or len(r) > 4000 else r

    def observe(self, a, k, out):
        ctx = DET['ctx']
        if ctx is None:
            return
        try:
            kr = repr((a, sorted(k.items()) if k else ()))
        except Exception:
            return
        if ' at 0x' in kr or len(kr) > 4000:
            return
        ok = self.outcome_key(out)
        if ok is None:
            return
        h = hash(kr)
        prev = self.first.get(h)
        if prev is None:
            if len(self.first) < DET_CAP:
                self.first[h] = hash(ok)
                self.seen += 1
                # reservoir sample of distinct calls for the end-of-shard replay
                if len(self.sample) < DET_SAMPLE:
                    self.sample.append((a, dict(k), ok))
                else:
                    j = (h ^ self.seen * 2654435761) % self.seen
                    if j < DET_SAMPLE:
                        self.sample[j] = (a, dict(k), ok)
                if len(self.fresh) < FRESH_SAMPLE:
                    self.fresh.append((a, dict(k), ok))
                else:
                    j = (h ^ self.seen * 40503) % self.seen
                    if j < FRESH_SAMPLE:
                        self.fresh[j] = (a, dict(k), ok)
            return
        ctx.counters['eval.determinism-repeat-calls'] += 1
        if prev != hash(ok):
            ctx.violation('determinism:%s:same-call-different-outcome' % self.label,
                          {'fn': self.label, 'args': kr[:300]}, 'the first answer', ok[:200])

    # ---- the careless caller: now and then the previous call is repeated with one argument of the wrong type or an
    # extreme value, straight on the real function (nothing is judged on it; every later call is)
    JUNK = [None, 0, 1, -1, 1.5, float('nan'), float('inf'), '', ' ', 'x', b'x', [], {}, True, 10 ** 30, -0.0]

    def careless(self, raw, a, k):
        self.calls += 1
        if self.calls % 211 == 0 and a:
            # a near miss of THIS call right before it (one text argument with a stray character, cut short, padded): refused or
            # not, the good call that follows is judged as usual - a memo that stores its key before the answer, or keeps the
            # previous answer when the computation raises, hands the caller somebody else's result
            ctx = DET['ctx']
            n = self.calls // 211
            idx = [i for i, v in enumerate(a) if isinstance(v, str) and type(v) is str]
            if idx:
                i = idx[n % len(idx)]
                v = a[i]
                b = list(a)
                b[i] = [v + 'x', v[:-1], v + ' ', v + '\x00', 'x' + v, v + 'T00:00:00', v.swapcase() + '?'][(n // len(idx)) % 7]
                try:
                    raw(*b, **k)
                except BaseException as e:       # noqa
                    if isinstance(e, (KeyboardInterrupt, SystemExit, MemoryError)):
                        raise
                ctx.counters['eval.near-miss-of-the-call-right-before-it'] += 1
        if self.calls % 701 or not a:
            return
        ctx = DET['ctx']
        n = self.calls // 701
        i = n % len(a)
        junk = self.JUNK[(n // len(a)) % len(self.JUNK)]
        if n % 5 == 0:
            junk = [a[i]]
        elif n % 5 == 1 and isinstance(a[i], str):
            junk = a[i].encode('utf-8', 'replace')
        elif n % 5 == 2 and isinstance(a[i], str) and a[i].isdigit():
            junk = int(a[i])
        elif n % 5 == 2 and isinstance(a[i], (int, float)) and not isinstance(a[i], bool):
            junk = str(a[i])
        b = list(a)
        b[i] = junk
        try:
            raw(*b, **k)
        except BaseException as e:       # noqa - refused, as expected; only a hang or a crash of the interpreter would matter
            if isinstance(e, (KeyboardInterrupt, SystemExit, MemoryError)):
                raise
        ctx.counters['eval.careless-caller-calls'] += 1

    def replay(self, rnd):
        ctx = DET['ctx']
        calls = list(self.sample)
        rnd.shuffle(calls)
        for a, k, ok in calls:
            call(self.wrapper, *a, **k)
            ctx.counters['eval.determinism-replayed-calls'] += 1


def replay_recorded(rnd):
    """issue a sample of every recorder's distinct calls again (end of shard)"""
    for rec in DET['recs']:
        rec.replay(rnd)


# ---- ambient decimal context -----------------------------------------------------------------------
# The decimal context is thread-wide state the caller of athlib never passes in: an application that embeds the library may
# have set `getcontext().prec = 6` (the tutorial's example), a directed rounding mode (money), or the FloatOperation trap
# (strict mode).  Every fifth monitored call therefore runs the REAL function under one of these contexts (the oracle side
# always computes under the harness's own default context); a function whose answer moves with the context shows up at the
# clause that judges the answer, and in the determinism monitor as "same call, different outcome".  The list holds only
# contexts an application plausibly sets and the unchanged tree answers identically under (see DESIGN section 8, wave 7).
import decimal as _decimal

HOSTILE = [
    ('prec=6', dict(prec=6)),
    ('rounding=ROUND_DOWN', dict(rounding=_decimal.ROUND_DOWN)),
    ('rounding=ROUND_UP', dict(rounding=_decimal.ROUND_UP)),
    ('prec=9,rounding=ROUND_HALF_UP', dict(prec=9, rounding=_decimal.ROUND_HALF_UP)),
    ('rounding=ROUND_FLOOR,traps=FloatOperation', dict(rounding=_decimal.ROUND_FLOOR, traps=[_decimal.FloatOperation, _decimal.InvalidOperation,
                                                                                             _decimal.DivisionByZero, _decimal.Overflow])),
    ('prec=7,rounding=ROUND_CEILING', dict(prec=7, rounding=_decimal.ROUND_CEILING)),
    # the sticky signal flags of a thread that has done inexact Decimal arithmetic before (localcontext() copies them)
    ('flags=Inexact+Rounded', dict(flags=[_decimal.Inexact, _decimal.Rounded, _decimal.Subnormal])),
]
AMB = {'on': False, 'n': 0, 'current': None, 'force': None, 'period': 5,
       'ctxs': [(n, _decimal.Context(**kw)) for n, kw in HOSTILE]}


def _load_pinned():
    import json
    import os
    try:
        with open(os.path.join(os.path.dirname(os.path.dirname(os.path.abspath(__file__))), 'api_signatures.json')) as f:
            return json.load(f)
    except Exception:
        return {}


PINNED_API = _load_pinned()


def hostile_context(n):
    """(name, Context) for the n-th monitored call, or None (4 of 5 calls keep the default context)"""
    if AMB['force'] is not None:
        for nm, c in AMB['ctxs']:
            if nm == AMB['force']:
                return nm, c
        return None
    if not AMB['on'] or n % AMB['period'] != 3:
        return None
    return AMB['ctxs'][(n // AMB['period']) % len(AMB['ctxs'])]


def fresh_compare(ctx, rnd):
    """the first answers of this shard against a new interpreter that has seen nothing else (vf/fresh.py)"""
    import os
    import pickle
    import subprocess
    calls = []
    for rec in DET['recs']:
        if not rec.label.startswith('athlib'):
            continue
        for a, k, ok in rec.fresh:
            try:
                pickle.dumps((a, k))
            except Exception:
                continue
            calls.append((rec.label, a, k, ok))
    if not calls:
        return
    rnd.shuffle(calls)

    def ask(batch, timeout=900):
        import tempfile
        fd, path = tempfile.mkstemp(prefix='vf-fresh-', suffix='.pkl', dir=os.environ.get('VERIF_TMP', None))
        os.close(fd)
        try:
            cmd = [sys.executable] + (['-O'] if sys.flags.optimize else []) + ['-m', 'vf.fresh', path]
            p = subprocess.run(cmd, input=pickle.dumps([(l, a, k) for l, a, k, ok in batch]), stdout=subprocess.DEVNULL, stderr=subprocess.PIPE,
                               timeout=timeout)
            if p.returncode != 0:
                return None, p.stderr.decode('utf-8', 'replace')[-300:]
            with open(path, 'rb') as f:
                return pickle.load(f), None
        finally:
            try:
                os.unlink(path)
            except OSError:
                pass
    try:
        got, err = ask(calls)
    except Exception as e:      # noqa - a reference that cannot be had decides nothing
        got, err = None, repr(e)[:200]
    if got is None:
        ctx.inconclusive.append('fresh-interpreter reference failed: %s' % err)
        return
    confirmed = 0
    for (label, a, k, ok), ref in zip(calls, got):
        ctx.counters['eval.fresh-interpreter-comparisons'] += 1
        if ref is None or ref == ok:
            continue
        note = None
        if confirmed < 6:
            confirmed += 1
            try:
                alone, err = ask([(label, a, k, ok)], 120)
                note = 'asked alone in a new interpreter: %s' % (alone[0] if alone else err)
            except Exception as e:       # noqa
                note = 'lone confirmation failed: %r' % e
        ctx.violation('history:%s:first-answer-in-this-process-differs-from-a-fresh-interpreter' % label,
                      {'fn': label, 'args': repr((a, sorted(k.items())))[:300]}, 'fresh interpreter: ' + ref[:200], ok[:200], note)


def _shape(v, depth=0):
    """the members of a caller-owned container, two levels deep: the same objects in the same places, and containers among them
    with the same members (objects are compared by identity - a copy would not equal an object without __eq__)"""
    def member(x):
        if depth < 1 and isinstance(x, (list, dict)):
            return _shape(x, depth + 1)
        return x if isinstance(x, (str, int, float, bool, type(None))) else id(x)
    if isinstance(v, dict):
        return ('D', [(k if isinstance(k, (str, int, float, bool, type(None))) else id(k), member(x)) for k, x in v.items()])
    return ('L', [member(x) for x in v])


def monitor(owner, name, on_event, rebind_aliases=True, pure=True):
    """Wrap owner.name (module or class attribute); on_event(args, kwargs, outcome)."""
    original = getattr(owner, name) if not isinstance(owner, type) else owner.__dict__[name]
    raw = original
    det = None
    if pure and DET['ctx'] is not None:
        det = Determinism('%s.%s' % (getattr(owner, '__name__', owner), name))
        DET['recs'].append(det)

    # calling convention: every seventh call hands the last 1..n positional arguments to the real function by keyword (a memo
    # keyed on *args alone, a wrapper that forwards only positionals); the monitors are told about the call as it was written
    try:
        import inspect
        _ps = list(inspect.signature(raw).parameters.values())
        pnames = [q.name for q in _ps] if all(q.kind == q.POSITIONAL_OR_KEYWORD for q in _ps) else None
    except (TypeError, ValueError):
        pnames = None

    pinned = PINNED_API.get('%s.%s' % (getattr(owner, '__name__', owner), name))
    pinned_defaults = PINNED_API.get('%s.%s#defaults' % (getattr(owner, '__name__', owner), name), {})

    def by_keyword(a, k):
        n = AMB['n']
        if n % 7 == 6 and pinned and k and AMB['on'] and len(a) < len(pinned):
            # the other way round: keyword arguments handed over positionally, in the order of the PINNED signature (a caller
            # written against the published API; api_signatures.json) - when they fill the next slots without a gap
            nxt = pinned[len(a):len(a) + len(k)]
            if set(nxt) == set(k):
                ctx = DET['ctx']
                if ctx is not None:
                    ctx.counters['ambient.calls-with-keyword-arguments-passed-positionally'] += 1
                return tuple(a) + tuple(k[nm] for nm in nxt), {}
            # with gaps: the slots in between are filled with the pinned literal defaults (gender, 1.2, MyError - the documented order)
            if all(nm in pinned for nm in k):
                last = max(pinned.index(nm) for nm in k)
                fill = []
                for nm in pinned[len(a):last + 1]:
                    if nm in k:
                        fill.append(k[nm])
                    elif nm in pinned_defaults:
                        fill.append(pinned_defaults[nm])
                    else:
                        return a, k
                ctx = DET['ctx']
                if ctx is not None:
                    ctx.counters['ambient.calls-with-keyword-arguments-passed-positionally'] += 1
                return tuple(a) + tuple(fill), {}
            return a, k
        if pnames is None or n % 7 != 5 or not a or len(a) > len(pnames) or not AMB['on']:
            return a, k
        j = 1 + (n // 7) % len(a)
        names = pnames[len(a) - j:len(a)]
        if any(nm in k for nm in names):
            return a, k
        k2 = dict(k)
        k2.update(zip(names, a[len(a) - j:]))
        ctx = DET['ctx']
        if ctx is not None:
            ctx.counters['ambient.calls-with-arguments-passed-by-keyword'] += 1
        return a[:len(a) - j], k2

    @functools.wraps(raw)
    def wrapper(*a, **k):
        if det is not None and DET['careless']:
            det.careless(raw, a, k)
        AMB['n'] += 1
        hc = hostile_context(AMB['n']) if AMB['current'] is None else None
        if hc is None:
            return judged(a, k)
        AMB['current'] = hc[0]
        ctx = DET['ctx']
        if ctx is not None:
            ctx.counters['ambient.decimal-context-calls'] += 1
        try:
            return judged(a, k, hc[1])
        finally:
            AMB['current'] = None

    def judged(a, k, dctx=None):
        a2, k2 = by_keyword(a, k)
        # what the caller hands over stays the caller's: a list or dict argument (items to sort, a field card, an action log) is
        # compared with a copy of itself after the call
        mutable = [(i, v) for i, v in enumerate(a) if isinstance(v, (list, dict))]
        before = None
        if mutable:
            try:
                before = [(i, _shape(v)) for i, v in mutable]
            except Exception:
                before = None
        try:
            return judged2(a, k, a2, k2, dctx)
        finally:
            if before is not None:
                ctx = DET['ctx']
                for (i, was), (_i, v) in zip(before, mutable):
                    try:
                        now = _shape(v)
                        same = was == now
                    except Exception:
                        same = True
                    if ctx is not None:
                        ctx.counters['eval.caller-owned-argument-compared'] += 1
                        if not same:
                            ctx.violation('argument-mutated:%s.%s:argument-%d' % (getattr(owner, '__name__', owner), name, i),
                                          {'fn': name, 'argument': i}, repr(was)[:300], repr(v)[:300])

    def judged2(a, k, a2, k2, dctx):
        try:
            if dctx is None:
                r = raw(*a2, **k2)
            else:
                with _decimal.localcontext(dctx):
                    r = raw(*a2, **k2)
        except Exception as e:  # noqa
            o = Outcome('raise', e)
            if det is not None:
                det.observe(a, k, o)
            on_event(a, k, o)
            raise
        o = Outcome('return', r)
        if det is not None:
            det.observe(a, k, o)
        on_event(a, k, o)
        return r
    wrapper.__vf_original__ = raw
    if det is not None:
        det.wrapper = wrapper
    if rebind_aliases and not isinstance(owner, type):
        rebind(original, wrapper)
    setattr(owner, name, wrapper)
    return wrapper


def original(fn):
    return getattr(fn, '__vf_original__', fn)


class MonitoredPattern(object):
    """Proxy for a compiled re.Pattern reporting every string it is asked about."""

    def __init__(self, pat, name, on_string):
        self._pat = pat
        self._name = name
        self._on = on_string
        self.pattern = pat.pattern
        self.groupindex = pat.groupindex
        self.flags = pat.flags
        self.groups = pat.groups

    def match(self, s, *a):
        self._on(self._name, 'match', s)
        return self._pat.match(s, *a)

    def search(self, s, *a):
        self._on(self._name, 'search', s)
        return self._pat.search(s, *a)

    def fullmatch(self, s, *a):
        self._on(self._name, 'fullmatch', s)
        return self._pat.fullmatch(s, *a)

    def __getattr__(self, k):
        return getattr(self._pat, k)


def proxy_patterns(codes_module, on_string):
    """Replace every exported PAT_* of athlib.codes (and its aliases) with a proxy."""
    import re
    made = {}
    for k, v in list(vars(codes_module).items()):
        if k.startswith('PAT_') and isinstance(v, re.Pattern):
            p = MonitoredPattern(v, k, on_string)
            made[k] = (v, p)
    for k, (v, p) in made.items():
        rebind(v, p)
    return {k: v for k, (v, p) in made.items()}
