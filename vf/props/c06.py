"""C06 - times are never rounded down: round-up, formatting and parsing agree.

Monitors: recorders on athlib.utils.round_up_str_num / format_seconds_as_time / parse_hms
(aliases rebound, so calls made by the library itself are judged too).
"""
import itertools
import math
import random
import re
import sys
from fractions import Fraction

from .. import attach, core

META = {
    'rule': ('round-up: digit strings [0-4 digit int part][.][0-7 digit fraction] x precision 0..5 judged against an '
             'integer-arithmetic ceiling of the first five decimals; format: durations (0.001 grid, hour/minute carry '
             'windows, float residues) x precision 0..3 judged on field ranges, decimals and the parse_hms round trip; '
             'parse: 1-3 field strings over both separators judged against exact sexagesimal Fractions, arbitrary text '
             'judged on exception class. distinct_nontrivial = distinct judged inputs where rounding actually had to '
             'carry / the text had a fraction or >1 field / the parse raised'),
    'assumptions': ['digits beyond the fifth decimal are noise (lower bound relaxed by 1e-5)',
                    'parse results compared with the exact value to within one ulp of the returned float'],
}

RU_DOMAIN = re.compile(r'^[0-9]{0,4}(\.[0-9]{0,7})?$')
FIELD = re.compile(r'^(?:[0-9]+(?:\.[0-9]*)?|\.[0-9]+)$')


class Monitor(object):
    def __init__(self, ctx):
        self.ctx = ctx
        self.u = sys.modules['athlib.utils']
        attach.monitor(self.u, 'round_up_str_num', self.on_roundup)
        attach.monitor(self.u, 'format_seconds_as_time', self.on_format)
        attach.monitor(self.u, 'parse_hms', self.on_parse)
        import athlib
        assert athlib.parse_hms is self.u.parse_hms and athlib.round_up_str_num is self.u.round_up_str_num
        self.raw_parse = attach.original(self.u.parse_hms)

    # -- round_up_str_num ---------------------------------------------------------------
    def on_roundup(self, args, kwargs, out):
        ctx = self.ctx
        ctx.count('eval.round_up')
        s = args[0] if args else kwargs.get('s')
        prec = args[1] if len(args) > 1 else kwargs.get('prec', 2)
        maxdp = args[2] if len(args) > 2 else kwargs.get('maxDP', 5)
        if not isinstance(s, str) or not RU_DOMAIN.match(s) or maxdp != 5 or not isinstance(prec, int) or not 0 <= prec <= 5:
            ctx.count('unjudged.round_up-off-domain')
            return
        case = {'fn': 'round_up_str_num', 's': s, 'prec': prec}
        i, _, f = s.partition('.')
        V = int(i or '0') * 100000 + int((f[:5] + '00000')[:5])
        unit = 10 ** (5 - prec)
        R = -(-V // unit)
        carried = V % unit != 0
        if not out.ok:
            ctx.violation('round_up:raise:%s' % type(out.value).__name__, case, R, repr(out))
            return
        got = out.value
        # the integer part may be spelled empty ('.1'): the property fixes the value and the decimals only
        pat = r'^[0-9]+$' if prec == 0 else r'^[0-9]*\.[0-9]{%d}$' % prec
        if not isinstance(got, str) or not re.match(pat, got):
            key = 'round_up:malformed'
            if got == '' and i == '':
                key = 'round_up:empty-int-part-and-no-carry-gives-empty-string'
            ctx.violation(key, case, 'value %d/10^%d with %d decimals' % (R, prec, prec), got)
            return
        if int(got.replace('.', '')) != R:
            ctx.violation('round_up:wrong-value' + ('-carry' if carried else '-nocarry'), case, '%d/10^%d' % (R, prec), got)
            return
        ctx.count('judged.round_up')
        if carried:
            if ctx.nt(('ru', s, prec)):
                ctx.count('judged.round_up-carry')
            ctx.sample('round_up', dict(case, got=got), 4)

    # -- format_seconds_as_time ------------------------------------------------------------
    def on_format(self, args, kwargs, out):
        ctx = self.ctx
        ctx.count('eval.format')
        x = args[0] if args else kwargs.get('seconds')
        prec = args[1] if len(args) > 1 else kwargs.get('prec', 0)
        if isinstance(x, bool) or not isinstance(x, (int, float)) or not (0 <= x <= 360000.5) or \
                isinstance(prec, bool) or not isinstance(prec, int) or not 0 <= prec <= 3:
            ctx.count('unjudged.format-off-domain')
            return
        case = {'fn': 'format_seconds_as_time', 'x': x, 'xrepr': repr(x), 'prec': prec}
        tiny = isinstance(x, float) and 0 < x - int(x) < 1e-4
        suffix = ':fraction-below-1e-4(repr-in-exponent-notation)' if tiny else ''
        if not out.ok:
            ctx.violation('format:raise:%s%s' % (type(out.value).__name__, suffix), case, 'text', repr(out))
            return
        t = out.value
        ok = isinstance(t, str)
        why = ''
        if ok:
            parts = t.split(':')
            secpat = r'^[0-9]+$' if prec == 0 else r'^[0-9]+\.[0-9]{%d}$' % prec
            if not (1 <= len(parts) <= 3) or not re.match(secpat, parts[-1]) or not all(re.match(r'^[0-9]+$', p) for p in parts[:-1]):
                ok, why = False, 'malformed-fields'
            else:
                si = parts[-1].split('.')[0]
                if len(parts) > 1 and (len(si) != 2 or int(si) >= 60):
                    ok, why = False, 'seconds-field-range'
                elif len(parts) > 1 and int(parts[-2]) >= 60:
                    ok, why = False, 'minutes-field-range'
                elif len(parts) == 3 and len(parts[1]) != 2:
                    ok, why = False, 'minutes-field-width'
        else:
            why = 'not-a-string'
        if ok:
            try:
                back = self.raw_parse(t)
            except Exception as e:
                ok, why = False, 'unparseable:' + type(e).__name__
        if ok:
            unit = 10.0 ** -prec
            if back < x - 1e-5 - 1e-9:
                ok, why = False, 'rounded-down'
            elif not back < x + unit + 1e-9:
                ok, why = False, 'rounded-up-too-far'
        if not ok:
            ctx.violation('format:%s%s' % (why, suffix), case, 'fields<60, %d decimals, x<=parse<x+10^-%d' % (prec, prec), t)
            return
        ctx.count('judged.format')
        if back != x or len(parts) > 1:
            if ctx.nt(('fmt', x, prec)):
                ctx.count('judged.format-nontrivial')
            if len(parts) == 3:
                ctx.sample('format-hours', dict(case, got=t), 2)
            else:
                ctx.sample('format', dict(case, got=t), 3)

    # -- parse_hms ----------------------------------------------------------------------------
    def on_parse(self, args, kwargs, out):
        ctx = self.ctx
        ctx.count('eval.parse')
        t = args[0] if args else kwargs.get('t')
        if not isinstance(t, str):
            ctx.count('unjudged.parse-non-text')
            return
        case = {'fn': 'parse_hms', 't': t}
        if not out.ok:
            if not isinstance(out.value, ValueError):
                ctx.violation('parse:raise:%s' % type(out.value).__name__, case, 'number or ValueError', repr(out))
                return
        elif isinstance(out.value, bool) or not isinstance(out.value, (int, float)):
            ctx.violation('parse:non-number', case, 'number or ValueError', repr(out))
            return
        # documented grammar: 1-3 digit fields, one separator kind
        fields = None
        for sep in ':;':
            if sep in t:
                fields = t.split(sep)
                break
        if fields is None:
            fields = [t]
        if len(fields) > 3 or not all(FIELD.match(f) for f in fields) or any(len(f) > 12 for f in fields):
            ctx.count('judged.parse-exception-class-only')
            if not out.ok:
                if ctx.nt(('pe', t)):
                    ctx.count('judged.parse-refused')
                ctx.sample('parse-refused', dict(case, got=repr(out)), 3)
            return
        exact = Fraction(0)
        for f in fields:
            exact = exact * 60 + Fraction(f if not f.endswith('.') else f + '0')
        allint = all(re.match(r'^[0-9]+$', f) for f in fields)
        if not out.ok:
            ctx.violation('parse:refused-valid-text', case, str(exact), repr(out))
            return
        r = out.value
        if allint:
            if type(r) is not int or r != exact:
                ctx.violation('parse:integer-fields-not-exact-int', case, str(exact), repr(r))
                return
        else:
            if not (r == r) or abs(Fraction(r) - exact) > Fraction(math.ulp(r)):
                ctx.violation('parse:wrong-value', case, str(exact), repr(r))
                return
        ctx.count('judged.parse-value')
        if len(fields) > 1 or not allint:
            if ctx.nt(('pv', t)):
                ctx.count('judged.parse-nontrivial')
            ctx.sample('parse', dict(case, got=r), 3)


INTS = ['', '0', '00', '7', '9', '09', '99', '10', '999', '0999', '9999', '59', '3599']


def roundup_work(mon, ctx, spec, rnd):
    f = mon.u.round_up_str_num
    ints = INTS[spec['i']::spec['n']] if ctx.tier == 'quick' else \
        ([''] + ['%0*d' % (w, v) for w in (1, 2, 3, 4) for v in sorted(set(
            [0, 1, 5, 9] + [10 ** w - 1, 10 ** w - 2, 10 ** (w - 1)] + [rnd.randrange(10 ** w) for _ in range(6)])) if v < 10 ** w])[spec['i']::spec['n']]
    fracs = ['']
    for L in (1, 2, 3):
        fracs += [''.join(p) for p in itertools.product('0123456789', repeat=L)]
    if ctx.tier == 'quick':
        for L in (4, 5, 6, 7):
            fracs += [''.join(p) for p in itertools.product('0159', repeat=L)]
    else:
        fracs += [''.join(p) for p in itertools.product('0123456789', repeat=4)]
        for L in (5, 6, 7):
            fracs += [''.join(p) for p in itertools.product('0159', repeat=L)]
            fracs += ['%0*d' % (L, rnd.randrange(10 ** L)) for _ in range(20000)]
    for i in ints:
        for fr in fracs:
            forms = [i + '.' + fr] + ([i] if not fr and i else [])
            for s in forms:
                for prec in range(6):
                    attach.call(f, s, prec)
    attach.call(f, '', 2)
    attach.call(f, '12')            # default precision


def format_work(mon, ctx, spec, rnd):
    f = mon.u.format_seconds_as_time
    i, n = spec['i'], spec['n']
    precs = (0, 1, 2, 3)
    # 0.001 grid
    top = 200000 if ctx.tier == 'quick' else 7200000
    for ms in range(i, top + 1, n):
        x = ms / 1000
        for p in precs:
            attach.call(f, x, p)
    # windows around k*60 and k*3600 up to 100 h
    ks = list(range(1, 61)) + [rnd.randrange(61, 6000) for _ in range(40 if ctx.tier == 'quick' else 600)]
    centres = [k * 60 for k in ks] + [k * 3600 for k in list(range(1, 25)) + [48, 72, 99, 100]]
    w = 2000
    for c in centres[i::n]:
        for ms in range(c * 1000 - w, c * 1000 + w + 1, 1 if ctx.tier == 'thorough' else 3):
            x = ms / 1000
            if x > 360000.5:
                continue
            for p in precs:
                attach.call(f, x, p)
    if i == 0:
        # residue floats
        for k in (0, 1, 59, 65, 3599, 3600, 359999):
            for e in range(4, 17):
                for p in precs:
                    attach.call(f, k + 10.0 ** -e, p)
                    attach.call(f, k + 3 * 10.0 ** -e, p)
                    attach.call(f, k + 1 - 10.0 ** -e, p)
        grid = [0.1, 0.2, 0.3, 0.7, 1.1, 2.2, 59.9, 0.01, 0.07, 19.99, 33.33]
        for a in grid:
            for b in grid:
                for p in precs:
                    attach.call(f, a + b, p)
                    attach.call(f, a * b, p)
                    attach.call(f, a * 3 + 3599, p)
        for x in (-0.0, 0.0, 5e-324, 1e-300, 1e-17, 4.9e-11, 5.1e-11, 360000.5, 59.99999999995, 3599.99999999999):      # edges of the float domain
            for p in precs:
                attach.call(f, x, p)
        for k in (0, 5, 65, 3600, 86400):          # int inputs
            for p in precs:
                attach.call(f, k, p)
        for _ in range(3000):
            x = rnd.random() * rnd.choice([1, 60, 3600, 360000])
            for p in precs:
                attach.call(f, x, p)


PARSE_FIELDS = ['0', '00', '7', '07', '59', '60', '99', '1.5', '01.50', '.5', '5.', '10.123', '0.0', '123', '1000000']
JUNK = ['', ' ', ':', ';', '1::2', '1:2;3', ':1', '1:', 'abc', '1e3', 'nan', 'inf', '-inf', 'infinity', '0x10', '1_0', '1__0',
        '١٢:٣٠', '５', '-5', '-1:30', '1:-30', '+5', '1:2:3:4', '1;2;3;4', '1:2.5:3', ' 1:2 ', '1 :2',
        '1:2\n', '\n', '1\x00', '1.2.3', '1,5', '1:2,5', '9' * 400, '9' * 5000, '1:' + '9' * 5000, '1.5e400', '1e-400', 'None',
        '1' + '0' * 400 + ':0.5', '9' * 310 + ';1.5', '2.5:' + '9' * 400, '1' + '0' * 309 + ':0:0.1', '9' * 4000 + ':0.5', 'True', '1:1:1e2', '0b1', '1j', '\t7', '7\t:8', '1:.', '.', '..', '1:.:2', '²', '①', '1 2', '5;', ';5']
# more fields than the interpreter's recursion limit / than any clock has
# characters that mean something to %-formatting, str.format, templates and regexes: an error message built from the text
JUNK += ['100%', '5%s', '%d', '1:3%d', '2;5%5.2f', '12:30 %(secs)s', '%', '%%', '1:%', '{0}', '{}', '1:{x}', '2;{', '}', '\\', '1\\:2', '$1', '${x}', '1:$',
         '(1', '1)', '[1', '*', '1:+', '?', '^1', '1$', '1|2', '\x00', '1\x00:2']
JUNK += [':'.join(['0'] * 1500), ';'.join(['1'] * 3000), '0:' * 20000 + '1', ':' * 5000, '1;2;3;4;5', '0.5:' * 1200 + '1']


def parse_work(mon, ctx, spec, rnd):
    f = mon.u.parse_hms
    i, n = spec['i'], spec['n']
    cases = []
    for k in (1, 2, 3):
        for combo in itertools.product(PARSE_FIELDS, repeat=k):
            for sep in ':;':
                cases.append(sep.join(combo))
                if k == 1:
                    break
    for a, b, c in itertools.product(PARSE_FIELDS[:8], repeat=3):
        cases.append('%s:%s;%s' % (a, b, c))
        cases.append('%s;%s:%s' % (a, b, c))
    cases += JUNK
    alphabet = '0123456789:;. -+eExX_,\t\nabn٣ '
    for _ in range(4000 if ctx.tier == 'quick' else 100000):
        L = rnd.randrange(0, 9)
        cases.append(''.join(rnd.choice(alphabet) for _ in range(L)))
    if ctx.tier == 'thorough':
        for h in range(0, 30):
            for m in range(0, 100, 1):
                for s in ('0', '59.99', '60', '7.5'):
                    cases.append('%d:%02d:%s' % (h, m, s))
                    cases.append('%d;%d;%s' % (h, m, s))
    for t in cases[i::n]:
        attach.call(f, t)


def run_shard(ctx, spec):
    core.import_athlib()
    mon = Monitor(ctx)
    rnd = random.Random(ctx.seed * 7919 + spec['i'] * 31 + {'roundup': 1, 'format': 2, 'parse': 3}[spec['w']])
    {'roundup': roundup_work, 'format': format_work, 'parse': parse_work}[spec['w']](mon, ctx, spec, rnd)
    ctx.require('judged.round_up-carry', 1000)
    ctx.require('judged.format-nontrivial', 1000)
    ctx.require('judged.parse-nontrivial', 100)
    ctx.require('judged.parse-refused', 10)


def shards(tier, seed):
    s = [{'w': 'roundup', 'i': i, 'n': 13} for i in range(13)]
    s += [{'w': 'format', 'i': i, 'n': 12} for i in range(12)]
    s += [{'w': 'parse', 'i': i, 'n': 4} for i in range(4)]
    return s


def replay(ctx, cases):
    core.import_athlib()
    mon = Monitor(ctx)
    for c in cases:
        if c['fn'] == 'round_up_str_num':
            o = attach.call(mon.u.round_up_str_num, c['s'], c['prec'])
        elif c['fn'] == 'format_seconds_as_time':
            x = float(c['xrepr']) if '.' in c['xrepr'] or 'e' in c['xrepr'] else int(c['xrepr'])
            o = attach.call(mon.u.format_seconds_as_time, x, c['prec'])
        else:
            o = attach.call(mon.u.parse_hms, c['t'])
        print('  %s -> %r' % (c, o))
