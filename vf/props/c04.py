"""C04 - event-code families: unions exact, measurement kinds disjoint.

Monitor: MonitoredPattern proxies replace every PAT_* exported by athlib.codes (and every alias
of them inside athlib), so each string the library is asked to classify - by this workload or by
library code - is seen; for each distinct string the whole family vector is evaluated once with
the real compiled patterns and the set-algebra invariants are asserted.
"""
import itertools
import random
import sys

from .. import attach, core
from ..gen import relang

META = {
    'rule': ('strings = bounded-exhaustive enumeration over the partition alphabet induced by the patterns, grammar samples '
             'of every family pattern (every alternative/option/class member cycled), single-edit mutants, cross-family '
             'splices and trailing-newline variants; each distinct string judged once on the full family vector; '
             'distinct_nontrivial = distinct strings accepted by at least one family (positive side of a union)'),
    'assumptions': ['set algebra on the match vector of the real compiled patterns is the oracle; no re-implementation',
                    'language equality has no length bound: this is bounded-exhaustive plus sampled exploration'],
}

PARTS = ['PAT_TRACK', 'PAT_HURDLES', 'PAT_ROAD', 'PAT_RELAYS', 'PAT_JUMPS', 'PAT_THROWS', 'PAT_MULTI',
         'PAT_RACES_FOR_DISTANCE', 'PAT_HIGHSCORING_EVENT', 'PAT_LOWSCORING_EVENT']
COMPOSITES = {
    'PAT_EVENT_CODE': PARTS,
    'PAT_RUN': ['PAT_TRACK', 'PAT_ROAD', 'PAT_RELAYS'],
    'PAT_FIELD': ['PAT_THROWS', 'PAT_JUMPS'],
    'PAT_JUMPS': ['PAT_VERTICAL_JUMPS', 'PAT_HORIZONTAL_JUMPS'],
    'PAT_LENGTH_EVENT': ['PAT_HORIZONTAL_JUMPS', 'PAT_THROWS'],
    'PAT_TIMED_EVENT': ['PAT_TRACK', 'PAT_HURDLES', 'PAT_ROAD', 'PAT_RELAYS'],
    'PAT_FINISH_RECORD': ['PAT_PERF', 'PAT_FINISHED', 'PAT_NOT_FINISHED'],
}
KINDS = ['PAT_TIMED_EVENT', 'PAT_FIELD', 'PAT_MULTI', 'PAT_RACES_FOR_DISTANCE']


class Monitor(object):
    def __init__(self, ctx):
        self.ctx = ctx
        self.codes = sys.modules['athlib.codes']
        self.real = attach.proxy_patterns(self.codes, self.on_string)     # name -> real compiled pattern
        self.names = sorted(set(PARTS) | set(COMPOSITES) | set(sum(COMPOSITES.values(), [])) | set(KINDS))
        missing = [n for n in self.names if n not in self.real]
        if missing:
            ctx.inconclusive.append('patterns not exported by athlib.codes: %s' % missing)
            self.names = [n for n in self.names if n in self.real]
        self.seen = set()
        import athlib
        self.athlib = athlib
        self.utils = sys.modules['athlib.utils']
        assert isinstance(self.utils.PAT_EVENT_CODE, attach.MonitoredPattern)
        self.unit_name = sys.modules['athlib.athlon_score'].unit_name
        self.kind = sys.modules['athlib.wma.agegrader'].AgeGrader.event_code_to_kind

    def on_string(self, name, how, s):
        self.ctx.count('eval.proxy-%s' % how)
        if not isinstance(s, str) or s in self.seen:
            return
        self.seen.add(s)
        self.judge(s)

    def judge(self, s):
        ctx = self.ctx
        ctx.count('eval.family-vector')
        v = {n: self.real[n].match(s) is not None for n in self.names}
        case = {'s': s}
        for comp, parts in COMPOSITES.items():
            if comp not in v or any(p not in v for p in parts):
                continue
            u = any(v[p] for p in parts)
            if v[comp] != u:
                which = [p for p in parts if v[p]]
                ctx.violation('union:%s:%s' % (comp, 'accepts-more-than-its-parts' if v[comp] else 'misses-part:' + '+'.join(which)),
                              case, 'union=%s' % u, '%s=%s' % (comp, v[comp]))
        hit = [k for k in KINDS if v.get(k)]
        if len(hit) > 1:
            ctx.violation('kinds-overlap:' + '+'.join(hit), case, 'at most one measurement kind', hit)
        if v.get('PAT_EVENT_CODE'):
            ctx.nt(s)
            ctx.count('judged.accepted')
            fams = [p for p in PARTS if v.get(p)]
            ctx.sample('accepted:' + '+'.join(f[4:] for f in fams), s, 1)
            # first-match classifiers agree with the measurement kind whatever their test order
            o = attach.call(self.unit_name, s)
            ctx.count('eval.unit_name')
            want = 'metres' if v.get('PAT_FIELD') else 'seconds'
            if (v.get('PAT_FIELD') or v.get('PAT_TIMED_EVENT')) and (not o.ok or o.value != want):
                ctx.violation('classifier:unit_name-disagrees-with-kind', case, want, repr(o))
            o = attach.call(self.kind, s)
            ctx.count('eval.event_code_to_kind')
            if o.ok:
                k = o.value
                # only the measurement kind is judged (field vs not field): the names of the timed kinds are the library's own business
                if (k in ('throw', 'jump')) != bool(v.get('PAT_FIELD')):
                    ctx.violation('classifier:event_code_to_kind-disagrees-with-kind', case,
                                  'field' if v.get('PAT_FIELD') else 'timed', k)
        elif any(v.get(n) for n in self.names):
            ctx.nt(s)
            ctx.count('judged.other-pattern-only')
        else:
            ctx.count('judged.rejected')


def alphabet(mon):
    a = relang.literal_alphabet([mon.real[n] for n in PARTS if n in mon.real])
    return a


def run_shard(ctx, spec):
    core.import_athlib()
    mon = Monitor(ctx)
    rnd = random.Random(ctx.seed * 104729 + spec.get('i', 0) + hash(spec['w']) % 1000)
    ask = mon.utils.check_event_code          # goes through the proxied PAT_EVENT_CODE
    A = alphabet(mon)
    full = A['letters'] + A['digits'] + A['ws'] + A['punct'] + A['foreign']
    ctx.info['alphabet_size'] = len(full)
    w = spec['w']
    if w == 'enum':
        firsts = full[spec['i']::spec['n']]
        ask('')
        for c in firsts:
            ask(c)
            for d in full:
                ask(c + d)
                for e in full:
                    ask(c + d + e)
        if ctx.tier == 'thorough':
            up = sorted(set(ch.upper() for ch in A['letters'])) + A['digits'][:10] + [' ', '.']
            for c in up[spec['i']::spec['n']]:
                for rest in itertools.product(up, repeat=3):
                    ask(c + ''.join(rest))
            core16 = list('0124xXHhMmKk.') + [' ', 'S', 'T']
            for c in core16[spec['i']::spec['n']]:
                for rest in itertools.product(core16, repeat=4):
                    ask(c + ''.join(rest))
    elif w == 'grammar':
        fams = [n for n in sorted(mon.real) if n not in ('PAT_LEADING_DIGITS', 'PAT_LEADING_FLOAT')]
        per = 2500 if ctx.tier == 'quick' else 40000
        nmut = 4 if ctx.tier == 'quick' else 6
        pool = []
        mine = fams[spec['i']::spec['n']]
        for fam in mine:
            for ascii_only in (True, False):
                g = relang.Gen(mon.real[fam], seed=ctx.seed * 31 + len(fam), ascii_only=ascii_only, maxrep=3)
                for s in g.many(per):
                    ask(s)
                    ask(s + '\n')
                    pool.append(s)
                    for m in relang.mutants(s, full, rnd, nmut):
                        ask(m)
                    for m in relang.lookalikes(s, rnd, 2):
                        ask(m)
        # the language has no length bound: unbounded repeats (\d+, \s*, \d*) taken 45 / 130 / 700 times, one family at a time
        for fam in mine:
            g = relang.Gen(mon.real[fam], seed=ctx.seed * 17 + len(fam), ascii_only=True, maxrep=1, long_repeats=(45, 130, 700))
            for s in g.many(300 if ctx.tier == 'quick' else 3000):
                if len(s) > 40:
                    ask(s)
                    ctx.count('eval.codes-longer-than-40-characters')
        # cross-family splices
        others = []
        for fam in fams:
            g = relang.Gen(mon.real[fam], seed=ctx.seed + 7, ascii_only=True, maxrep=2)
            others.extend(itertools.islice(g.many(60), 60))
        for _ in range(len(pool) // 2):
            a, b = rnd.choice(pool), rnd.choice(others)
            i, j = rnd.randrange(len(a) + 1), rnd.randrange(len(b) + 1)
            ask(a[:i] + b[j:])
            ask(b[:j] + a[i:])
            ask(a + b)
    ctx.require('judged.accepted', 50)
    ctx.require('judged.rejected', 50)


def shards(tier, seed):
    return [{'w': 'enum', 'i': i, 'n': 16} for i in range(16)] + [{'w': 'grammar', 'i': i, 'n': 12} for i in range(12)]


def replay(ctx, cases):
    core.import_athlib()
    mon = Monitor(ctx)
    for c in cases:
        s = c['s']
        v = {n: mon.real[n].match(s) is not None for n in mon.names}
        print('  %r -> matches %s' % (s, sorted(k for k, x in v.items() if x)))
        mon.utils.check_event_code(s)
