"""C19 - schema validation answers do not depend on what was validated before.

Oracle: the fresh-process table - every distinct call of the alphabet executed once as the
first call of its own interpreter (subprocess.run).  Monitor: recorders on
athlib.utils.schema_valid / valid_against_schema compare the outcome of every observed call,
whatever came before it in the process, with the table; an audit hook watches for network
access while $refs are resolved.
"""
import itertools
import json
import os
import random
import subprocess
import sys
import tempfile
from concurrent.futures import ThreadPoolExecutor

from .. import attach, core

META = {
    'rule': ('call alphabet = {schema_valid(schema, validator, expect_failure)} over every bundled schema x validator classes x '
             'both flags and {valid_against_schema(doc, schema, expect_failure)} over every bundled sample x its schema (plus '
             'mismatched pairs) x both flags; sequences = all sequences of length <= 3 over each cache key\'s own calls, all '
             'ordered pairs across keys, seeded long sequences overflowing the 20-entry caches (thorough: all length <= 3 '
             'sequences over a 40-call alphabet). distinct_nontrivial = distinct sequences in which some call addressed a cache '
             'key already used earlier in that sequence (the history could matter), each call compared with the fresh-process table'),
    'exhaustive': True,
    'assumptions': ['in-process state is reset between sequences by clearing the two module caches; a sample of sequences is '
                    're-run in fresh interpreters to confirm the reset is faithful',
                    'exhaustive refers to the per-key alphabets at length <= 3'],
    'timeout': {'quick': 1500, 'thorough': 7200},
}

VALIDATORS = ['Draft3Validator', 'Draft4Validator', 'Draft6Validator', 'Draft7Validator']

FRESH = r'''
import sys, json, io, contextlib
sys.path.insert(0, %(repo)r)
net = []
def hook(ev, args):
    if ev in ('socket.connect', 'socket.getaddrinfo', 'socket.gethostbyname', 'http.client.connect'):
        net.append(ev)
    elif ev == 'urllib.Request' and not str(args[0]).startswith('file:'):
        net.append(ev + ' ' + str(args[0])[:80])
sys.addaudithook(hook)
import jsonschema
from athlib import utils
calls = json.loads(sys.argv[1])
out = []
for c in calls:
    buf = io.StringIO()
    try:
        with contextlib.redirect_stdout(buf):
            if c[0] == 'S':
                r = utils.schema_valid(c[1], getattr(jsonschema, c[2]), c[3])
            else:
                r = utils.valid_against_schema(c[1], c[2], c[3])
        out.append(['return', r])
    except Exception as e:
        out.append(['raise', type(e).__name__, str(getattr(e, 'message', ''))[:300], [str(x) for x in getattr(e, 'path', [])]])
print('RESULT' + json.dumps({'out': out, 'net': net}))
'''


SCRIBBLE = 'scribbled on by an earlier caller'


def describe_error(e):
    """the error as a caller sees it: class, message and the path to the offending item"""
    return ['raise', type(e).__name__, str(getattr(e, 'message', ''))[:300], [str(x) for x in getattr(e, 'path', [])]]


def scribble(e):
    """what a caller may do to an error it has caught (it is the caller's object): a later caller must get its own"""
    try:
        if hasattr(e, 'path'):
            e.path.clear()
        if hasattr(e, 'message'):
            e.message = SCRIBBLE
        e.args = ('scribble',)
    except Exception:
        pass


def fresh(calls):
    """Run a call sequence in a fresh interpreter; returns (outcomes, network events)."""
    env = dict(os.environ, PYTHONHASHSEED='0')
    p = subprocess.run(['/venv/bin/python', '-c', FRESH % {'repo': core.REPO}, json.dumps(calls)], cwd=core.REPO, env=env,
                       stdout=subprocess.PIPE, stderr=subprocess.PIPE, text=True, timeout=600)
    for line in p.stdout.splitlines():
        if line.startswith('RESULT'):
            d = json.loads(line[6:])
            return [tuple(x) for x in d['out']], d['net']
    raise RuntimeError('fresh interpreter failed: %s' % p.stderr[-500:])


def alphabet(tier):
    jd = os.path.join(core.REPO, 'json')
    schemas = sorted('json/' + f for f in os.listdir(jd) if f.endswith('.json'))
    defs = sorted('json/definitions/' + f for f in os.listdir(os.path.join(jd, 'definitions')) if f.endswith('.json'))
    samples = sorted(f for f in os.listdir(os.path.join(core.REPO, 'sample-jsons')) if f.endswith('.json'))
    vals = VALIDATORS[:2] if tier == 'quick' else VALIDATORS
    S = []
    for s in schemas + defs:
        for v in vals:
            for ef in (False, True):
                S.append(['S', s, v, ef])
    if tier == 'quick':
        # the later drafts for the top-level schemas in the quick tier as well (the bundled schemas declare draft-04: a draft-06/07
        # class disagrees with it on some of them, so an answer computed for one class and served for another shows)
        for s in schemas:
            for v in VALIDATORS[2:]:
                for ef in (False, True):
                    S.append(['S', s, v, ef])
    V = []
    expect = {}
    stems = [os.path.basename(s)[:-5] for s in schemas if 'metaschema' not in s]
    for doc in samples:
        own = [st for st in sorted(stems, key=len, reverse=True) if doc.startswith(st)]
        if not own:
            continue
        sch = 'json/%s.json' % own[0]
        for ef in (False, True):
            V.append(['V', 'sample-jsons/' + doc, sch, ef])
        expect[('sample-jsons/' + doc, sch)] = 'invalid' not in doc
    # mismatched pairs
    mism = [('sample-jsons/athlete.json', 'json/race.json'), ('sample-jsons/race_iffleymiles_2016_600mA.json', 'json/athlete.json'),
            ('sample-jsons/event.json', 'json/performance.json'), ('sample-jsons/performance.json', 'json/event.json'),
            ('sample-jsons/competition_minimal.json', 'json/combined_performance.json'), ('sample-jsons/athlete_minimal.json', 'json/metaschema.json')]
    for d, s in mism:
        for ef in (False, True):
            V.append(['V', d, s, ef])
    # documents checked against the definition schemas as well (the two helpers share schema files, not only cache shapes)
    for i, s in enumerate(defs):
        for d in (samples[i % len(samples)], 'athlete.json'):
            for ef in (False, True):
                V.append(['V', 'sample-jsons/' + d, s, ef])
    # other spellings of the same files: the bare name the lookup falls back on, back-slashes, an absolute path
    for s in schemas + defs:
        for sp in (s[len('json/'):], s.replace('/', '\\'), os.path.join(core.REPO, s)):
            for v in vals[:2]:
                for ef in (False, True):
                    S.append(['S', sp, v, ef])
    for (d, sch), _valid in sorted(expect.items()):
        for ef in (False, True):
            V.append(['V', d, sch[len('json/'):], ef])
            V.append(['V', os.path.join(core.REPO, d), sch, ef])
    # the same two files in swapped roles (a sample used as the schema constrains nothing, a schema is a JSON document too)
    for (d, sch), _valid in sorted(expect.items())[::3]:
        for ef in (False, True):
            V.append(['V', sch, d, ef])
    return S, V, expect


def canon(path):
    """the schema file a spelled path names"""
    p = path.replace('\\', '/')
    if p.startswith(core.REPO + '/'):
        p = p[len(core.REPO) + 1:]
    return p[len('json/'):] if p.startswith('json/') else p


def key_of(c):
    return (c[0], c[1], c[2])


def build_table(tier):
    S, V, expect = alphabet(tier)
    calls = S + V
    with ThreadPoolExecutor(max_workers=16) as ex:
        res = list(ex.map(lambda c: fresh([c]), calls))
    table = {}
    net = []
    for c, (out, n) in zip(calls, res):
        table[json.dumps(c)] = list(out[0])
        net.extend(n)
    return {'table': table, 'net': net, 'expect': {json.dumps(k): v for k, v in expect.items()}}


class _Shown(Exception):
    """stands for an error that has been handed to the (hostile) caller: described first, then scribbled on"""

    def __init__(self, e):
        self.shown = describe_error(e)
        self.cls = type(e).__name__
        scribble(e)
        Exception.__init__(self, self.cls)


class Monitor(object):
    def __init__(self, ctx, table):
        self.ctx = ctx
        self.table = table['table']
        self.u = sys.modules['athlib.utils']
        import jsonschema
        self.js = jsonschema
        attach.monitor(self.u, 'schema_valid', self.on_schema_valid, pure=False)      # validator classes all print alike; the fresh-process table decides
        attach.monitor(self.u, 'valid_against_schema', self.on_valid_against, pure=False)
        self.history = []
        self.net = []
        sys.addaudithook(self.audit)

    def audit(self, ev, args):
        # file:// URLs opened through urllib are local $ref resolution, not network access
        if ev in ('socket.connect', 'socket.getaddrinfo', 'socket.gethostbyname', 'http.client.connect'):
            self.net.append(ev)
        elif ev == 'urllib.Request' and not str(args[0]).startswith('file:'):
            self.net.append(ev + ' ' + str(args[0])[:80])
        elif ev == 'urllib.Request':
            self.ctx.counters['eval.local-ref-resolution'] += 1

    def reset(self):
        self.u._schema_valid_cache.clear()
        self.u._valid_against_schema_cache.clear()
        self.history = []

    def judge(self, call, out):
        ctx = self.ctx
        ctx.count('eval.call')
        want = self.table.get(json.dumps(call))
        got = ['return', out.value] if out.ok else describe_error(out.value)
        if not out.ok and (got[2] == SCRIBBLE or getattr(out.value, 'args', None) == ('scribble',)):
            # the object an earlier caller caught (and scribbled on) has been raised again
            ctx.violation('history:%s:the-error-raised-is-an-earlier-caller-s-object' % ('schema_valid' if call[0] == 'S' else 'valid_against_schema'),
                          {'history': self.history[-25:], 'call': call}, 'an error of its own', got)
            self.history.append(call)
            return
        if (ctx.ambient or {}).get('hashseed', '0') != '0' and want is not None and want[0] == 'raise' and got[0] == 'raise':
            # which of several equally relevant errors jsonschema reports first depends on the string-hash seed; the table was
            # made under seed 0, so message and path are compared in the seed-0 shards only
            want = want[:2]
            got = got[:2]
        warm = key_of(call) in [key_of(h) for h in self.history]
        self.history.append(call)
        if want is None:
            ctx.count('unjudged.call-not-in-fresh-table')
            return
        ctx.count('judged.call')
        if warm:
            ctx.count('judged.call-on-warm-key')
        if got != want:
            hist = self.history[:-1]
            same = [h for h in hist if key_of(h) == key_of(call)]
            k = 'history:%s:' % ('schema_valid' if call[0] == 'S' else 'valid_against_schema')
            if want[:2] == got[:2]:
                k += 'the-error-raised-differs-in-message-or-path(an-earlier-caller-s-object-handed-out-again)'
            elif any(h[3] is False for h in same) and call[3] is True and want[0] == 'raise' and got == ['return', False]:
                k += 'cached-False-answered-to-expect_failure-call'
            elif same:
                k += 'same-key-earlier:%s->%s' % (want[:2], got[:2])
            elif len(hist) >= 20:
                k += 'after-cache-overflow:%s->%s' % (want[:2], got[:2])
            else:
                k += 'other-key-earlier:%s->%s' % (want[:2], got[:2])
            ctx.violation(k, {'history': hist[-25:], 'call': call}, want, got)

    def on_schema_valid(self, args, kwargs, out):
        a = list(args)
        sf = a[0]
        v = kwargs.get('validator', a[1] if len(a) > 1 else self.js.Draft3Validator)
        ef = kwargs.get('expect_failure', a[2] if len(a) > 2 else False)
        self.judge(['S', sf, getattr(v, '__name__', str(v)), bool(ef)], out)

    def on_valid_against(self, args, kwargs, out):
        a = list(args)
        ef = kwargs.get('expect_failure', a[2] if len(a) > 2 else False)
        self.judge(['V', a[0], a[1], bool(ef)], out)

    def do(self, call):
        import contextlib
        import io
        with contextlib.redirect_stdout(io.StringIO()):
            if call[0] == 'S':
                o = attach.call(self.u.schema_valid, call[1], getattr(self.js, call[2]), call[3])
            else:
                o = attach.call(self.u.valid_against_schema, call[1], call[2], call[3])
        if not o.ok:
            o = attach.Outcome('raise', _Shown(o.value))
        return o

    def run_sequence(self, seq):
        self.reset()
        for c in seq:
            self.do(c)
        self.ctx.count('eval.sequence')
        keys = [key_of(c) for c in seq]
        if len(set(keys)) < len(keys) or len(seq) > 20:
            self.ctx.nt(json.dumps(seq))
            self.ctx.count('judged.sequence-with-warm-key')
            if len(seq) <= 3:
                self.ctx.sample('sequence', seq, 4)
            elif len(seq) > 20:
                self.ctx.sample('long-sequence(first 6 calls of %d)' % len(seq), seq[:6], 2)


def sequences(tier, seed, S, V):
    rnd = random.Random(seed * 977 + 13)
    seqs = []
    bykey = {}
    for c in S + V:
        bykey.setdefault(key_of(c), []).append(c)
    for k, calls in bykey.items():
        for L in (1, 2, 3):
            for combo in itertools.product(calls, repeat=L):
                seqs.append(list(combo))
    keys = list(bykey)
    rnd.shuffle(keys)
    some = keys[:12]
    for a in some:
        for b in some:
            if a != b:
                for ca in bykey[a]:
                    for cb in bykey[b]:
                        seqs.append([ca, cb, ca])
    # the two helpers on the same schema file, in both orders (one helper's memo must not answer for the other)
    for sch in sorted(set(canon(c[1]) for c in S)):
        Ss = [c for c in S if canon(c[1]) == sch]
        Vs = [c for c in V if canon(c[2]) == sch]
        pairs = [(a, b) for a in Ss for b in Vs]
        if tier == 'quick' and len(pairs) > 120:
            pairs = rnd.sample(pairs, 120)
        for a, b in pairs:
            seqs.append([a, b])
            seqs.append([b, a])
            seqs.append([a, b, a])
    # a document / schema pair, then the same two files the other way round, and back
    swapped = [c for c in V if c[1].startswith('json/') and c[2].startswith('sample-jsons/')]
    for c in swapped:
        straight = ['V', c[2], c[1], False]
        for first in (straight, ['V', c[2], c[1], True]):
            seqs.append([first, c])
            seqs.append([c, first, c])
    # runs of bare-named files (each one goes through the lookup's fall-back branch)
    bare = [c for c in S + V if not (c[1].startswith('json/') or c[1].startswith('sample-jsons/') or c[1].startswith('/')) or
            (c[0] == 'V' and not c[2].startswith('json/'))]
    for _ in range(20 if tier == 'quick' else 300):
        seqs.append([list(c) for c in rnd.sample(bare, min(len(bare), rnd.randrange(3, 12)))])
    allc = S + V
    for _ in range(100 if tier == 'quick' else 2500):
        L = rnd.randrange(25, 81)
        pool = rnd.sample(allc, min(len(allc), rnd.randrange(22, 60)))
        seqs.append([rnd.choice(pool) for _ in range(L)])
    # targeted overflow: more than 20 distinct keys of ONE cache, mostly non-raising calls (only those are cached),
    # with revisits in between, so that every insertion beyond the limit evicts and the answers around it are compared
    for _ in range(100 if tier == 'quick' else 2500):
        kind = S if rnd.random() < 0.5 else V
        ks = list(dict.fromkeys(key_of(c) for c in kind))
        rnd.shuffle(ks)
        seq = []
        for k in ks[:rnd.randrange(22, len(ks) + 1)]:
            seq.append([k[0], k[1], k[2], rnd.random() < 0.15])
            if rnd.random() < 0.3 and seq:
                seq.append(list(rnd.choice(seq)))
        for _ in range(rnd.randrange(3, 12)):
            seq.append(list(rnd.choice(kind)))
        seqs.append(seq)
    if tier == 'thorough':
        forty = rnd.sample(allc, 40)
        for combo in itertools.product(forty, repeat=2):
            seqs.append(list(combo))
        for combo in itertools.product(forty, repeat=3):
            seqs.append(list(combo))
    return seqs


def run_shard(ctx, spec):
    core.import_athlib()
    with open(spec['table']) as f:
        table = json.load(f)
    mon = Monitor(ctx, table)
    S, V, expect = alphabet(ctx.tier)
    seqs = sequences(ctx.tier, ctx.seed, S, V)
    ctx.info['sequences_total'] = len(seqs)
    mine = seqs[spec['i']::spec['n']]
    for s in mine:
        mon.run_sequence(s)
    if spec['i'] == 0:
        # bundled samples: valid ones validate, invalid ones do not (fresh-process answers)
        for k, valid in table['expect'].items():
            d, sch = json.loads(k)
            t = table['table'].get(json.dumps(['V', d, sch, False]))
            ctx.count('eval.bundled-sample')
            if t != ['return', valid]:
                ctx.violation('samples:%s' % ('valid-sample-does-not-validate' if valid else 'invalid-sample-validates'), {'doc': d, 'schema': sch}, valid, t)
            else:
                ctx.nt(('sample', d))
            t2 = table['table'].get(json.dumps(['V', d, sch, True]))
            want2 = ['return', True] if valid else ['raise', 'ValidationError']
            if (t2 or [])[:2] != want2:
                ctx.violation('samples:expect_failure-outcome', {'doc': d, 'schema': sch}, want2, t2)
        if table['net']:
            ctx.violation('offline:network-access-while-resolving-refs', {'events': table['net'][:5]}, 'no network access', table['net'][:5])
        # the reset is faithful: whole sequences in fresh interpreters give what was seen in-process
        rnd = random.Random(ctx.seed)
        for s in rnd.sample(seqs, 6 if ctx.tier == 'quick' else 40):
            out, net = fresh(s)
            mon.reset()
            got = []
            for c in s:
                o = mon.do(c)
                got.append(('return', o.value) if o.ok else tuple(o.value.shown))
            ctx.count('eval.fresh-sequence-crosscheck')
            if [tuple(x) for x in out] != got:
                ctx.violation('harness:in-process-reset-not-faithful', {'seq': s[:10]}, out[:10], got[:10])
    if spec['i'] % 8 == 1:
        # validator classes built at run time (jsonschema.validators.extend of a draft, nothing changed: it validates exactly like
        # its base), used once and dropped: the next class may live at the same address - whatever the answers are remembered
        # under must keep the class alive or tell the classes apart some other way
        import contextlib
        import gc
        import io
        from jsonschema import validators as _jv
        mon.reset()
        files = sorted(set(c[1] for c in S if c[1].startswith('json/')))
        for rnd_no in range(12 if ctx.tier == 'quick' else 60):
            for fi, sf in enumerate(files):
                base = VALIDATORS[(fi + rnd_no) % len(VALIDATORS)]
                cls = _jv.extend(getattr(mon.js, base), {})
                cls.__name__ = base            # the recorder looks the answer up under the base draft's name
                with contextlib.redirect_stdout(io.StringIO()):
                    attach.call(mon.u.schema_valid, sf, cls, bool((fi + rnd_no) % 5 == 0))
                ctx.count('eval.run-time-built-validator-class')
                del cls
                if fi % 3 == 0:
                    gc.collect()
    if mon.net:
        ctx.violation('offline:network-access-while-resolving-refs', {'events': mon.net[:5]}, 'no network access', mon.net[:5])
    ctx.require('judged.call-on-warm-key', 50)


def shards(tier, seed):
    t = build_table(tier)
    fd, path = tempfile.mkstemp(prefix='vf-c19-table-', suffix='.json')
    with os.fdopen(fd, 'w') as f:
        json.dump(t, f)
    n = 16 if tier == 'quick' else 32
    _OWN_TABLES.append(path)
    return [{'i': i, 'n': n, 'table': path} for i in range(n)]


_OWN_TABLES = []


def post_merge(merged, tier, seed):
    for p in _OWN_TABLES:
        try:
            os.unlink(p)
        except OSError:
            pass
    merged['required']['eval.bundled-sample'] = 20
    merged['required']['eval.fresh-sequence-crosscheck'] = 3


def replay(ctx, cases):
    core.import_athlib()
    table = build_table('thorough')
    mon = Monitor(ctx, table)
    for c in cases:
        if 'call' not in c:
            print('  ', c)
            continue
        mon.reset()
        for h in c['history'] + [c['call']]:
            o = mon.do(h)
            print('  %s -> %r (fresh process: %s)' % (h, o, table['table'].get(json.dumps(h))))
