"""C03 - high jump: final placings follow countback and the jump-off result.

Monitor (vf/hj.py): the recorder's terminal-state hook fires whenever an accepted call leaves the
real object in finished / won / drawn; places and bests are recomputed from the shadow cards alone
(regular countback over the heights before the jump-off, jump-off survivor, shared places,
standard competition ranking) and compared with Jumper.place / highest_cleared.
"""
import random

from .. import core, hj

META = {
    'rule': ('complete competitions reached by (a) bounded breadth-first exploration of the real object restricted to '
             'rule-conforming continuations (legal calls only; in a jump-off every participant attempts or retires before the bar '
             'moves; jump-off bar raised, repeated, lowered and set below the tied height) and (b) seeded random complete '
             'competitions with 2-4 athletes drawn from per-height attempt strings {o, xo, xxo, xxx, x-, xx-, -, r, xr, ...} in '
             'random jumping order. distinct_nontrivial = distinct terminal (state, cards, heights) judged'),
    'assumptions': ['the mutual order of beaten jump-off participants is not fixed by the property and not judged',
                    'a "jump-off" the code declares among athletes with no clearance is unspecified (only bests judged)'],
}


def run_shard(ctx, spec):
    core.import_athlib()
    mon = hj.Monitor(ctx, rules=False, final=True, replay=False)
    rnd = random.Random(ctx.seed * 1237 + spec['i'])
    ex = hj.Explorer(mon, rnd)
    ex.float_heights = bool(spec.get('float'))
    hj.KW['on'] = bool(spec.get('kw'))
    if spec.get('kw'):
        ctx.count('eval.shards-with-start-list-details')
    if spec['w'] == 'bfs':
        ex.bfs(spec['nj'], spec['reg'], spec['jo'], part=spec['i'], nparts=spec['n'], split_depth=spec.get('split', 3), legal_only=True,
               max_states=spec.get('max_states'))
    elif spec['w'] == 'jumpoff':
        for k in range(spec['n']):
            if spec.get('deep'):
                ex.jumpoff_scenario(rnd.choice([3, 3, 4, 4, 5, 6]), max_jo=rnd.choice([3, 4, 5, 6]), scripted=True)
            else:
                ex.jumpoff_scenario(rnd.choice([3, 3, 4, 2]), max_jo=3)
    else:
        for k in range(spec['n']):
            ex.complete(rnd.choice(spec.get('nj', [2, 3, 3, 4, 4, 5, 6])), max_reg=rnd.choice([2, 3, 4, 4, 7, 9]), max_jo=rnd.choice([3, 3, 4]))
    ctx.info['states'] = ex.states
    ctx.info['transitions'] = ex.transitions
    ctx.count('eval.states-expanded', ex.states)
    ctx.require('judged.terminal-distinct', 20)


def post_merge(merged, tier, seed):
    for k in ('judged.terminal.won', 'judged.terminal.finished', 'judged.terminal.finished-after-jump-off', 'judged.terminal.drawn-after-jump-off'):
        merged['required'][k] = 5


def shards(tier, seed):
    if tier == 'quick':
        s = [{'w': 'bfs', 'nj': 2, 'reg': 2, 'jo': 2, 'i': i, 'n': 6} for i in range(6)]
        s += [{'w': 'bfs', 'nj': 3, 'reg': 1, 'jo': 1, 'i': i, 'n': 4} for i in range(4)]
        s += [{'w': 'random', 'n': 500, 'i': 50 + i} for i in range(6)]
        s += [{'w': 'random', 'n': 500, 'i': 60 + i, 'float': True} for i in range(3)]
        s += [{'w': 'jumpoff', 'n': 700, 'i': 80 + i} for i in range(6)]
        s += [{'w': 'jumpoff', 'n': 700, 'i': 90 + i, 'deep': True} for i in range(4)]
        s += [{'w': 'random', 'n': 400, 'i': 96, 'kw': True}, {'w': 'jumpoff', 'n': 500, 'i': 97, 'deep': True, 'kw': True}]
        return s
    s = [{'w': 'bfs', 'nj': 2, 'reg': 3, 'jo': 2, 'i': i, 'n': 32, 'split': 4, 'max_states': 150000} for i in range(32)]
    s += [{'w': 'bfs', 'nj': 3, 'reg': 2, 'jo': 2, 'i': i, 'n': 48, 'split': 4, 'max_states': 150000} for i in range(48)]
    s += [{'w': 'random', 'n': 3200, 'i': 200 + i} for i in range(16)]
    s += [{'w': 'random', 'n': 3200, 'i': 220 + i, 'float': True} for i in range(8)]
    s += [{'w': 'jumpoff', 'n': 6000, 'i': 300 + i} for i in range(16)]
    s += [{'w': 'jumpoff', 'n': 6000, 'i': 320 + i, 'deep': True} for i in range(16)]
    s += [{'w': 'random', 'n': 3200, 'i': 340 + i, 'kw': True} for i in range(2)] + [{'w': 'jumpoff', 'n': 4000, 'i': 344 + i, 'deep': True, 'kw': True} for i in range(2)]
    return s


def replay(ctx, cases):
    from . import c02
    for c in cases:
        c.setdefault('call', c['history'][-1])
        c['history'] = c['history'][:-1] if c['call'] == c['history'][-1] else c['history']
    c02.replay(ctx, cases)
