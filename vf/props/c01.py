"""C01 - combined-events points equal the official formula on the decimal mark.

Monitor: recorder on athlib.athlon_score.score (aliases rebound) judging every observed call
whose mark lies on the 0.01 grid against the exact-arithmetic oracle (oracles/athlon.py).
"""
import math
import random
import sys
from decimal import Decimal

from .. import attach, core
from ..oracles import athlon as O

META = {
    'rule': ('cases = (gender, event, mark in hundredths, age, esaa, representation) driven through the real '
             'athlon_score with a recorder attached; distinct_nontrivial counts distinct (row, mark, age, esaa) '
             'whose exact score is > 0 (the formula branch, not the clamp) plus distinct unknown-pair/None cases; '
             'shards partition the rows so distinct counts add up'),
    'assumptions': ['published coefficients are the decimal literals of the scoring table at the pinned commit',
                    'exact power evaluated with 60-digit Decimal ln/exp when the float value is within 1e-9 '
                    'relative of an integer boundary',
                    'events without a row in the combined-events age-factor file are unspecified with an age'],
}

QUICK_AGES = [1, 29, 30, 34, 35, 36, 39, 40, 64, 65, 99, 100, 104, 105, 109, 110]
UNKNOWN = [('M', 'SP6K'), ('F', 'JT600'), ('M', 'HT4K'), ('F', 'DT1K'), ('M', 'WT9.08K'), ('M', '100H_'), ('F', '110H'), ('M', 'XYZ'), ('F', '80'), ('X', '100'), ('M', ''), ('F', 'DEC'),
           ('M', '4x100'), ('F', 'MAR'), ('M', 'SLJ'), ('F', '600'), ('F', '1000')]


class Monitor(object):
    def __init__(self, ctx):
        self.ctx = ctx
        self.mod = sys.modules['athlib.athlon_score']
        self.live = O.live_rows(self.mod)
        self.seen = set()
        attach.monitor(self.mod, 'score', self.on_score)
        import athlib
        self.score = athlib.athlon_score
        assert self.score is self.mod.score, 'alias athlib.athlon_score not rebound'

    def classify(self, g, e, v, n, age, out, exp):
        """Mechanism key from clause + predicate on the input."""
        if not out.ok:
            t = type(out.value).__name__
            if exp[0] == 'none':
                return 'raise:%s:unknown-pair-%s' % (t, 'with-age' if age else 'no-age')
            if age and 5 * (int(age) // 5) < 35:
                return 'raise:%s:age-below-first-masters-band' % t
            if age and int(age) >= 115:
                return 'raise:%s:age-past-last-band' % t
            return 'raise:%s:other' % t
        if exp[0] == 'none':
            return 'unknown-pair-scored'
        r = out.value
        if not (type(r) is int) or r < 0:
            return 'result-not-nonneg-int'
        # float-rounding mechanism: 100*mark*factor in binary floats lands on the wrong side
        f = 1.0
        if age:
            fa = O.age_factor(core.REPO, g, e, age)
            f = float(fa) if fa is not None else 1.0
        k = O.kind_of(e if e not in ('80H',) else '100H')
        prod = 100 * v * f
        exact = Decimal(n) * (Decimal(repr(f)))
        if k == 't':
            wrong = math.ceil(prod) != int(exact.to_integral_value(rounding='ROUND_CEILING'))
        else:
            wrong = math.floor(prod) != int(exact.to_integral_value(rounding='ROUND_FLOOR'))
        if wrong:
            return 'points:float-product-100x-mark-rounds-to-wrong-hundredth' + ('-with-age' if age else '')
        return 'points:mismatch-other'

    def on_score(self, args, kwargs, out):
        ctx = self.ctx
        a = list(args) + [None] * (5 - len(args))
        g, e, v = a[0], a[1], a[2]
        age = kwargs.get('age', a[3])
        esaa = kwargs.get('esaa', a[4]) or False
        ctx.count('eval.score')
        if not isinstance(v, (int, float)) or isinstance(v, bool) or v != v or v < 0:
            ctx.count('unjudged.off-domain-mark')
            return
        n = int(round(v * 100))
        if abs(v * 100 - n) > 1e-6:
            ctx.count('unjudged.off-grid-mark')
            return
        if not isinstance(g, str) or not isinstance(e, str):
            ctx.count('unjudged.hostile-argument-types')
            return
        if age is not None and (not isinstance(age, int) or isinstance(age, bool) or age < 0):
            ctx.count('unjudged.age-type')
            return
        case = {'g': g, 'e': e, 'n': n, 'v': v, 'vtype': type(v).__name__, 'age': age, 'esaa': esaa}
        G, E = g.strip().upper(), e.strip().upper()
        if (g, e) != (G, E) and (G, E) in self.live and (g, e) not in self.live:
            # another spelling (letter case, surrounding blanks) of a scored pair: the library folds the case when it looks
            # the coefficients up.  Whether it answers at all is its own business (None is the "no score" answer), but a
            # score, if given, must be that event's score - never another formula applied to the same coefficients
            if out.ok and out.value is None:
                ctx.count('unspecified.respelled-pair-not-scored')
                return
            exp = O.exact_score(core.REPO, self.live, G, E, n, age, esaa)
            if exp[0] == 'points':
                ctx.count('judged')
                if not out.ok or type(out.value) is not int or out.value != exp[1]:
                    only_case = (g == G and e.upper() == E)
                    ctx.violation('points:recased-event-code-scored-differently' if only_case else
                                  'points:respelled-pair-scored-differently', case, exp[1], repr(out))
                elif exp[1] > 0:
                    ctx.nt((g, e, n, age, esaa))
                    ctx.count('judged.recased-event' if e.strip() == e and g.strip() == g else 'judged.blank-decorated-pair')
            return
        # any other gender label (X, ?, '', Male ...) makes an unknown pair: no score, and no error either
        exp = O.exact_score(core.REPO, self.live, g, e, n, age, esaa)
        if exp[0] == 'unspecified':
            ctx.count('unspecified.' + ('raise' if not out.ok else 'return'))
            ctx.sample('unspecified', dict(case, outcome=repr(out)), 2)
            return
        ctx.count('judged')
        if exp[0] == 'none':
            if out.ok and out.value is None:
                if (g, e, age) not in self.seen:
                    self.seen.add((g, e, age))
                    ctx.nt(('none', g, e, age))
                ctx.sample('unknown-pair', dict(case, outcome=None), 2)
                return
            ctx.violation(self.classify(g, e, v, n, age, out, exp), case, 'None', repr(out))
            return
        want = exp[1]
        if out.ok and type(out.value) is int and out.value == want:
            if want > 0:
                ctx.nt((g, e, n, age, esaa))
                ctx.count('judged.formula-branch')
                if age:
                    ctx.count('judged.with-age')
                    ctx.sample('age-adjusted', dict(case, points=want), 3)
                else:
                    ctx.sample('plain', dict(case, points=want), 3)
            else:
                ctx.count('judged.zero-clamp')
            return
        ctx.violation(self.classify(g, e, v, n, age, out, exp), case, want, repr(out))


def marks_for_row(mon, g, e, tier, rnd):
    zh = O.zero_mark_hundredths(g, e, mon.live)
    k = O.kind_of(e)
    if k == 't':
        top = zh + 50
    elif k == 'j':
        top = 1200
        zh = zh                       # jumps: Z is in cm == hundredths of a metre
    else:
        top = 11000
    if tier == 'thorough':
        return range(0, top + 1), top
    s = set(range(0, 31))
    s.update(range(max(0, zh - 30), min(top, zh + 31)))
    s.update(range(0, top + 1, 97))
    s.update(rnd.randrange(0, top + 1) for _ in range(2500))
    perf = mon.mod.performance
    for t in range(100, 1500, 100):
        try:
            p = perf(g, e, t)
        except Exception:
            continue
        if p is None:
            continue
        c = int(round(p * 100))
        s.update(range(max(0, c - 6), min(top, c + 7)))
    return sorted(s), top


def drive(mon, g, e, n, age=None, esaa=False, reps=True):
    score = mon.score
    v = n / 100
    forms = [v]
    if reps:
        if n % 100 == 0:
            forms.append(n // 100)
        forms.append(float(Decimal('%d.%02d' % divmod(n, 100))))
    for f in forms:
        kw = {}
        if age is not None:
            kw['age'] = age
        if esaa:
            kw['esaa'] = True
        attach.call(score, g, e, f, **kw)


def hostile(mon, rnd, g, e):
    """Calls a careless caller makes - wrong argument types, most of them refused.  Nothing is judged on them; what is judged
    is every later well-formed call: a refused call must not leave anything behind."""
    score, perf = mon.score, mon.mod.performance
    bad_e = [int(e) if e.isdigit() else 100, None, 1.5, [e], e.encode(), (e,), True]
    bad_v = ['abc', None, [1.0], '', float('nan'), complex(1, 1)]
    for _ in range(3):
        k = rnd.randrange(5)
        if k == 0:
            attach.call(score, g, rnd.choice(bad_e), 10.0)
        elif k == 1:
            attach.call(score, g, e, rnd.choice(bad_v))
        elif k == 2:
            attach.call(score, rnd.choice([None, 1, b'M', ['M']]), e, 10.0)
        elif k == 3:
            attach.call(perf, g, rnd.choice(bad_e), 800)
        else:
            attach.call(score, g, e, 10.0, age=rnd.choice(['40', 'V40', [40], 1e400]))
        mon.ctx.count('eval.hostile-call')


def run_shard(ctx, spec):
    core.import_athlib()
    mon = Monitor(ctx)
    rnd = random.Random(ctx.seed * 1000 + spec['i'])
    rows = sorted(mon.live)[spec['i']::spec['n']]
    ctx.info['rows'] = len(rows)
    tier = ctx.tier
    for (g, e) in rows:
        marks, top = marks_for_row(mon, g, e, tier, rnd)
        for j, n in enumerate(marks):
            drive(mon, g, e, n, reps=(tier == 'quick' or n % 7 == 0))
            if j % 401 == 200:
                hostile(mon, rnd, g, e)
        sub = list(marks)[:: max(1, len(marks) // 150)]
        for sp in (e.lower(), e.capitalize()):
            if sp != e:
                for n in sub:
                    drive(mon, g, sp, n, reps=False)
                    drive(mon, g, sp, n, age=50, reps=False)
        # other spellings of the pair: lower-case gender, blanks around the code (a '$' in a pattern and str.strip()
        # do not agree on what trailing white space is)
        sub2 = sub[::3]
        for gs, es in [(g.lower(), e), (g.lower(), e.lower()), (g, e + ' '), (g, e + '\t'), (g, e + '\n'), (g, e + '\r'),
                       (g, e + '\u00a0'), (g, ' ' + e), (g, e.lower() + ' '), (g + ' ', e), (g.lower(), e + '\n')]:
            for n in sub2:
                drive(mon, gs, es, n, reps=False)
                drive(mon, gs, es, n, age=50, reps=False)
            hostile(mon, rnd, g, e)
            drive(mon, g, e, rnd.choice(sub), reps=False)
        # the ESAA option concerns the boys' 800 m only: on every other row it changes nothing
        for n in sub[::2]:
            drive(mon, g, e, n, esaa=True, reps=False)
            drive(mon, g, e, n, age=50, esaa=True, reps=False)
        if (g, e) == ('M', '800'):
            # every public function of the module that takes an `esaa` option (today: score; discovered from the signatures of
            # the tree under test) is called with it for this row before the plain calls: none of them may edit the shared row
            import inspect
            am = sys.modules['athlib.athlon_score']
            for fname, fobj in sorted(vars(am).items()):
                if fname.startswith('_') or not inspect.isfunction(fobj) or fobj is mon.score or attach.original(fobj) is attach.original(mon.score):
                    continue
                try:
                    pars = inspect.signature(fobj).parameters
                except (TypeError, ValueError):
                    continue
                if 'esaa' in pars and len(pars) >= 4:
                    for third in (120.0, 769, 861):
                        attach.call(fobj, 'M', '800', third, esaa=True)
                        ctx.count('eval.other-functions-with-an-esaa-option')
            # the ESAA option must not leak into later plain calls (and vice versa): interleave them
            for n in marks:
                drive(mon, g, e, n, esaa=True, reps=False)
                drive(mon, g, e, n, reps=False)
                drive(mon, g, e, n, age=50, reps=False)
        # ages
        ages = QUICK_AGES if tier == 'quick' else list(range(1, 111))
        per = 120 if tier == 'quick' else 400
        zh = O.zero_mark_hundredths(g, e, mon.live)
        import math as _m
        for age in ages:
            lo, hi = (max(0, zh // 3), zh + 40) if O.kind_of(e) == 't' else (zh // 2, min(top, zh * 6 + 600))
            # marks whose product with the age factor is an exact number of hundredths: the float product
            # may land on either side of that integer, so rounding must act on the product, not on the mark
            fa = O.age_factor(core.REPO, g, e, age)
            if fa is not None and fa != 1:
                k = int(fa * 10000)
                step = 10000 // _m.gcd(k, 10000)
                for n in range(step, top + 1, step):
                    drive(mon, g, e, n, age=age, reps=False)
                    ctx.count('eval.exact-product-marks')
            for _ in range(per):
                drive(mon, g, e, rnd.randrange(lo, hi + 1), age=age, reps=False)
            if (g, e) == ('M', '800'):
                for _ in range(20):
                    drive(mon, g, e, rnd.randrange(lo, hi + 1), age=age, esaa=True, reps=False)
        # veterans' hurdles remapping
    if spec['i'] == 0:
        evs = sorted(set(e for _, e in mon.live)) + ['80H', '100H', '110H', 'SP4K', 'JT600', 'BT1K', 'ST5K', 'CT4K', 'DT1.5K', 'HT4K', 'WT9.08K']
        for g in ('X', '?', '', 'W', 'B', 'MF', 'Male', 'female', 'U', '0'):
            for e in evs:
                for n in (0, 1400):
                    drive(mon, g, e, n, reps=False)
                    drive(mon, g, e, n, age=50, reps=False)
        for g, e in UNKNOWN:
            for n in (0, 1000, 1234):
                drive(mon, g, e, n, reps=False)
                for age in (20, 40, 70):
                    drive(mon, g, e, n, age=age, reps=False)
        for g, e in (('F', '80H'), ('M', '80H'), ('M', '100H')):
            for n in list(range(900, 3000, 3)):
                drive(mon, g, e, n, reps=False)
                for age in (None, 34, 40, 55, 70, 85):
                    drive(mon, g, e, n, age=age, reps=False)
    ctx.require('judged.formula-branch', 100)
    ctx.require('judged.with-age', 10)


def shards(tier, seed):
    return [{'i': i, 'n': 16} for i in range(16)]


def replay(ctx, cases):
    core.import_athlib()
    mon = Monitor(ctx)
    for c in cases:
        kw = {}
        if c.get('age') is not None:
            kw['age'] = c['age']
        if c.get('esaa'):
            kw['esaa'] = True
        v = c['v'] if c.get('vtype') != 'int' else int(c['v'])
        o = attach.call(mon.score, c['g'], c['e'], v, **kw)
        print('  athlon_score(%r, %r, %r, %s) -> %r' % (c['g'], c['e'], v, kw, o))
