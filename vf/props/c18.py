"""C18 - the JavaScript port computes the same answers as the Python reference.

Differential monitor: every case is sent to the real Python function (imported from the
repository) and to its JavaScript twin loaded in place from <repo>/js/src by a long-lived node
process (vf/js/bridge.js); values are compared (numbers numerically, strings exactly; a throw
or a NaN counts as refusing).
"""
import itertools
import random
import re
import sys

from .. import attach, core
from ..js.bridge import Bridge
from ..oracles import junior as J
from . import c07, c11

META = {
    'rule': ('seven ported pairs x the C06 grids (decimal strings x precision, durations x precision, h:m:s strings of the documented '
             'grammar), isHandTiming on mark spellings, normalizeEventCode on every scoring-table key and its spelling variants, '
             'every Tyrving table x age x marks x input forms incl. hand-timed tenths and m:ss.xx, every QuadKids row x grid. '
             'distinct_nontrivial = distinct (function, arguments) on which BOTH sides answered and agreed, counted by the monitor; '
             'cases where both refuse are counted separately'),
    'assumptions': ['node loads js/src in place with only the ES import lines rewritten to require()',
                    'parse inputs outside the documented field grammar (1e3, 0x10, signs, blanks) are recorded, not judged'],
}

PAIRS = {
    'roundUpStrNum': ('utils', 'round_up_str_num'),
    'formatSecondsAsTime': ('utils', 'format_seconds_as_time'),
    'parseHms': ('utils', 'parse_hms'),
    'isHandTiming': ('utils', 'is_hand_timing'),
    'normalizeEventCode': ('utils', 'normalize_event_code'),
    'tyrvingScore': ('tyrving_score', 'tyrving_score'),
    'qkidsScore': ('qkids_score', 'qkids_score'),
}


class Monitor(object):
    def __init__(self, ctx):
        self.ctx = ctx
        self.bridge = Bridge()
        self.mods = {m: sys.modules['athlib.' + m] for m in ('utils', 'tyrving_score', 'qkids_score')}
        self.pending = []
        self.mech = None

    def py(self, jsfn):
        m, n = PAIRS[jsfn]
        return getattr(self.mods[m], n)

    def submit(self, jsfn, args, tag=None, judged=True):
        self.pending.append((jsfn, list(args), tag, judged))
        if len(self.pending) >= 400:
            self.flush()

    def flush(self):
        if not self.pending:
            return
        batch, self.pending = self.pending, []
        res = self.bridge.call_many([[fn, args] for fn, args, tag, judged in batch])
        ctx = self.ctx
        for (fn, args, tag, judged), r in zip(batch, res):
            # the Python side runs every fifth call under a decimal context an embedding application may have set
            attach.AMB['n'] += 1
            attach.AMB['current'] = None
            hc = attach.hostile_context(attach.AMB['n'])
            if hc is None:
                o = attach.call(self.py(fn), *args)
            else:
                import decimal
                attach.AMB['current'] = hc[0]
                ctx.count('ambient.decimal-context-calls')
                with decimal.localcontext(hc[1]):
                    o = attach.call(self.py(fn), *args)
            ctx.count('eval.' + fn)
            js_refuses = 'e' in r or 'nan' in r or 'undef' in r
            py_refuses = not o.ok or (isinstance(o.value, float) and o.value != o.value)
            case = {'fn': fn, 'args': args}
            if not judged:
                ctx.count('unjudged.outside-documented-grammar')
                if js_refuses != py_refuses or (not js_refuses and not self.same(o.value, r['v'])):
                    ctx.sample('recorded-not-judged', dict(case, python=repr(o), js=r), 4)
                continue
            if js_refuses and py_refuses:
                ctx.count('judged.both-refuse')
                continue
            if js_refuses != py_refuses:
                ctx.violation('%s:one-side-refuses:%s%s' % (fn, 'js' if js_refuses else 'python', self.suffix(fn, args, tag)), case,
                              'python: %r' % (o,), 'js: %s' % (r,))
                continue
            if not self.same(o.value, r['v']):
                ctx.violation('%s:values-differ%s' % (fn, self.suffix(fn, args, tag)), case, 'python: %r' % (o.value,), 'js: %r' % (r['v'],))
                continue
            ctx.count('judged.' + fn)
            if ctx.nt((fn, repr(args))):
                ctx.sample(fn, dict(case, value=o.value), 3)
        attach.AMB['current'] = None

    @staticmethod
    def same(a, b):
        if isinstance(a, bool) or isinstance(b, bool):
            return a is b
        if isinstance(a, (int, float)) and isinstance(b, (int, float)):
            return a == b          # both sides are IEEE doubles carried as shortest round-trip text: the same value means equal
        return type(a) is type(b) and a == b

    def suffix(self, fn, args, tag):
        """mechanism predicate over the input"""
        if fn == 'tyrvingScore':
            perf = args[3]
            hand = isinstance(perf, str) and (('.' not in perf) or len(perf) - perf.rfind('.') < 3)
            return ':hand-timed' if hand else ':plain'
        if fn == 'formatSecondsAsTime':
            x = args[0]
            fr = x - int(x)
            return ':fraction-below-1e-4' if 0 < fr < 1e-4 else ''
        if fn == 'roundUpStrNum':
            return ':empty-integer-part' if args[0].startswith('.') else ''
        if fn == 'normalizeEventCode':
            return ':' + (tag or 'key')
        return ''


def w_roundup(mon, ctx, rnd, i, n):
    ints = ['', '0', '00', '7', '9', '09', '99', '10', '999', '0999', '9999', '59', '3599']
    fracs = ['']
    for L in (1, 2, 3):
        fracs += [''.join(p) for p in itertools.product('0123456789', repeat=L)]
    for L in (4, 5, 6):
        fracs += [''.join(p) for p in itertools.product('0159', repeat=L)]
    k = 0
    stride = 1 if ctx.tier == 'thorough' else 3
    for ip in ints:
        for fr in fracs:
            k += 1
            if k % n != i or (k // n) % stride:
                continue
            for s in [ip + '.' + fr] + ([ip] if not fr and ip else []):
                if s in ('', '.'):
                    continue
                for prec in range(6):
                    mon.submit('roundUpStrNum', [s, prec])
    mon.submit('roundUpStrNum', ['12.345'])
    if i == 0:
        # the third parameter (how many decimals count as signal), below, at and above the precision asked for
        for s in ('1.239', '0.1299', '7.5', '7.05', '12.3456789', '.999999', '59.99951', '0.00001', '9.9', '3599.999999', '1', '1.'):
            for prec in range(6):
                for maxdp in range(8):
                    mon.submit('roundUpStrNum', [s, prec, maxdp])


def w_format(mon, ctx, rnd, i, n):
    step = 7 if ctx.tier == 'quick' else 1
    for ms in range(i * step, 200001, n * step):
        for p in (0, 1, 2, 3):
            mon.submit('formatSecondsAsTime', [ms / 1000, p])
    centres = [k * 60 for k in list(range(1, 61)) + [rnd.randrange(61, 6000) for _ in range(20)]] + [k * 3600 for k in (1, 2, 3, 10, 24, 99, 100)]
    for c in centres[i::n]:
        for ms in range(c * 1000 - 1500, c * 1000 + 1501, 5 if ctx.tier == 'quick' else 1):
            for p in (0, 1, 2, 3):
                mon.submit('formatSecondsAsTime', [ms / 1000, p])
    if i == 0:
        for k in (0, 1, 59, 65, 3599, 3600, 359999):
            for e in range(4, 17):
                for p in (0, 1, 2, 3):
                    mon.submit('formatSecondsAsTime', [k + 10.0 ** -e, p])
                    mon.submit('formatSecondsAsTime', [k + 1 - 10.0 ** -e, p])
        grid = [0.1, 0.2, 0.3, 0.7, 1.1, 2.2, 59.9, 0.01, 0.07, 19.99, 33.33]
        for a in grid:
            for b in grid:
                for p in (0, 1, 2, 3):
                    mon.submit('formatSecondsAsTime', [a + b, p])
                    mon.submit('formatSecondsAsTime', [a * b, p])
        for k in (0, 5, 65, 3600, 86400):
            for p in (0, 1, 2, 3):
                mon.submit('formatSecondsAsTime', [k, p])
        mon.submit('formatSecondsAsTime', [61.5])
    # residues in the 6th-8th decimal on top of grid values (the two ports print the fraction with a fixed number of
    # decimals before cutting at the fifth: they must print the same number of them) and full-precision random floats
    res = [9.6e-6, 9.9e-6, 9.96e-6, 9.4e-6, 9.5e-6, 5.1e-6, 4.9e-6, 1.0e-6, 9.96e-7, 9.4e-7, 5e-8, 9.99e-6, 0.99e-5 + 1e-9]
    for _ in range(250 if ctx.tier == 'quick' else 6000):
        g = rnd.choice([rnd.randrange(0, 7200000) / 1000.0, rnd.randrange(0, 720000) / 100.0, float(rnd.randrange(0, 7200)), rnd.randrange(0, 3600000) / 1000.0 + 3599])
        for r in res:
            for p in (0, 1, 2, 3):
                mon.submit('formatSecondsAsTime', [g + r, p])
    for _ in range(1500 if ctx.tier == 'quick' else 40000):
        x = rnd.random() * rnd.choice([1, 60, 3600, 360000])
        for p in (0, 1, 2, 3):
            mon.submit('formatSecondsAsTime', [x, p])


PF = ['0', '00', '7', '07', '59', '60', '99', '1.5', '01.50', '10.123', '0.0', '123', '5.', '3599.99']
OUTSIDE = ['', ' ', ':', '1::2', '1:2;3', ':1', '1:', 'abc', '1e3', 'nan', 'inf', '0x10', '1_0', '-5', '+5', '1:2:3:4', ' 1:2 ', '.5', '1:.5', 'Infinity', '1,5']


def w_parse(mon, ctx, rnd, i, n):
    cases = []
    for k in (1, 2, 3):
        for combo in itertools.product(PF, repeat=k):
            for sep in ':;':
                cases.append(sep.join(combo))
                if k == 1:
                    break
    for t in cases[i::n]:
        mon.submit('parseHms', [t])
    if i == 0:
        for t in OUTSIDE:
            mon.submit('parseHms', [t], judged=False)
        for x in (0, 5, 61.5, 3670.1):
            mon.submit('parseHms', [x])
        for t in ['12', '12.3', '12.34', '12.345', '1:12.3', '1:12.34', '1:12', '12.', '.5', '0.5', '100', '9.9', '59.99', '1:00.0', 'DNF', '', '12,3', '1.2.3']:
            mon.submit('isHandTiming', [t])
        for x in (12, 12.3, 12.34, 0):
            mon.submit('isHandTiming', [x])
        for a in range(0, 130):
            for b in ('', '.%d' % (a % 10), '.%02d' % (a % 100), '.%03d' % a):
                mon.submit('isHandTiming', ['%d%s' % (a, b)])
                mon.submit('isHandTiming', ['1:%02d%s' % (a % 60, b)])


def w_normalize(mon, ctx, rnd, i, n):
    c7 = c07.Monitor.__new__(c07.Monitor)          # only its pattern helpers are used here (no recorder attached)
    cm = sys.modules['athlib.codes']
    c7.codes = {k: v for k, v in vars(cm).items() if k.startswith('PAT_')}
    c7.check = mon.mods['utils'].check_event_code
    keys = c07.table_keys()
    for key in keys[i::n]:
        mon.submit('normalizeEventCode', [key], tag='table-key')
        for v in c07.variants_of(key, c7, rnd):
            if v == key:
                continue
            tag = 'spelling-variant'
            if re.search(r'\d0+\.0*(cm|m|[kK])', v) or re.search(r'0\.0*(cm|m|[kK])', v):
                tag = 'spelling-variant:integer-part-ends-in-zero-with-decimal-point'
            elif re.match(r'^[wW][tT]', v.strip()):
                tag = 'spelling-variant:weight-throw'
            mon.submit('normalizeEventCode', [v], tag=tag)
        mon.submit('normalizeEventCode', ['  ' + key + ' '], tag='padded-key')
    if i == 0:
        for s in ['', 'XYZ', '100X', 'H0', 'DTT', 'JT900', '4x', 'x100']:
            mon.submit('normalizeEventCode', [s], tag='non-code')


def w_tyrving(mon, ctx, rnd, i, n):
    T = mon.mods['tyrving_score']._tyrvingTables
    jobs = [(g, ev, age) for g in sorted(T) for ev in sorted(T[g]) for age in J.tyr_ages(*T[g][ev])]
    for (g, ev, age) in jobs[i::n]:
        kind, targs = T[g][ev]
        b = int(round(J.tyr_base_perf(kind, targs, age) * 100))
        marks = set(range(max(0, b - 3), b + 4))
        lo, hi = int(b * 0.3), int(b * 2.0)
        if ctx.tier == 'thorough':
            marks.update(range(lo, hi + 1, max(1, (hi - lo) // 6000)))
        else:
            marks.update(rnd.randrange(lo, hi + 1) for _ in range(40))
        if kind in ('throw', 'pv'):
            for yv in targs[1][:2]:
                c = int(round(J.tyr_base(age, yv) * 100))
                marks.update(range(max(0, c - 2), c + 3))
        # marks numerically equal to 40 / 60 / 80 / 300 (the JS list of hand-timing distances is compared with something)
        marks.update(x for x in (4000, 6000, 8000, 30000, 10000, 11000, 20000) if lo <= x <= hi)
        for mi, m in enumerate(sorted(marks)):
            forms = c11.forms_time(m) if kind == 'race' else c11.forms_len(m)
            if mi % 5 == 2:
                # history: calls that both sides refuse (age outside the table with a hand-timed / electronic / junk mark, a junk
                # mark at a tabulated age) come right before good ones - whatever a refused call leaves behind on either side
                # (a timing kind set and not restored, a half-built calculator) must not reach the next caller
                hand = '%d.%d' % (m // 100, (m % 100) // 10)
                for bad in ([g, age + 40, ev, hand], [g, 3, ev, '%d' % (m // 100)], [g, age, ev, 'x'], [g, age + 40, ev, m / 100],
                            [g, age, ev, hand + '.'], [g, None, ev, hand])[mi % 3::3]:
                    mon.submit('tyrvingScore', bad, tag='refused-before-good')
            for name, p in forms:
                mon.submit('tyrvingScore', [g, age, ev, p])
            if kind == 'race' and m % 10 == 0:
                mon.submit('tyrvingScore', [g, age, ev, '%d.%d' % (m // 100, (m % 100) // 10)])
                if m % 100 == 0:
                    mon.submit('tyrvingScore', [g, age, ev, '%d' % (m // 100)])
                    mon.submit('tyrvingScore', [g, age, ev, '%d.0' % (m // 100)])
                if m >= 6000:
                    mm, r = divmod(m, 6000)
                    mon.submit('tyrvingScore', [g, age, ev, '%d:%02d.%d' % (mm, r // 100, (r % 100) // 10)])
            if kind == 'race' and m >= 6000:
                # the dotted forms both sides accept (4.35.2, 4.35.20) and, for the long races, hours in both styles
                mm, r = divmod(m, 6000)
                mon.submit('tyrvingScore', [g, age, ev, '%d.%02d.%02d' % (mm, r // 100, r % 100)])
                if m % 10 == 0:
                    mon.submit('tyrvingScore', [g, age, ev, '%d.%02d.%d' % (mm, r // 100, (r % 100) // 10)])
                if m >= 360000:
                    hh, mm2 = divmod(mm, 60)
                    mon.submit('tyrvingScore', [g, age, ev, '%d:%02d:%02d.%02d' % (hh, mm2, r // 100, r % 100)])
                    mon.submit('tyrvingScore', [g, age, ev, '%d.%02d.%02d.%02d' % (hh, mm2, r // 100, r % 100)])
                    if m % 10 == 0:
                        mon.submit('tyrvingScore', [g, age, ev, '%d.%02d.%02d.%d' % (hh, mm2, r // 100, (r % 100) // 10)])
        mon.submit('tyrvingScore', [g.lower(), str(age), ev, b / 100])
        if kind == 'race':
            hb = b - b % 10
            hand = '%d.%d' % (hb // 100, (hb % 100) // 10)
            for sp in (' ' + ev, ev + ' ', ev.lower(), '\t' + ev, ev + '\n'):
                mon.submit('tyrvingScore', [g, age, sp, hand], tag='decorated-key-hand-timed')
        mon.submit('tyrvingScore', [g, age + 40, ev, b / 100])          # age not tabulated: both refuse


def w_qkids(mon, ctx, rnd, i, n):
    Q = mon.mods['qkids_score']
    PAT_RUN = sys.modules['athlib.codes'].PAT_RUN
    jobs = [(ct, ev) for ct in sorted(Q._qkidsTables) for ev in sorted(Q._qkidsTables[ct])]
    for (ct, ev) in jobs[i::n]:
        inc, p10, p100 = Q._qkidsTables[ct][ev]
        timed = PAT_RUN.match(ev) is not None
        lo = max(0, int(min(p10, p100) * 100 * 0.5) - 100)
        hi = int(max(p10, p100) * 100 * 1.5) + 200
        if ctx.tier == 'thorough':
            marks = range(lo, hi + 1)
        else:
            s = set(rnd.randrange(lo, hi + 1) for _ in range(500))
            for c in (int(p10 * 100), int(p100 * 100), int((p10 + 90 * inc * (-1 if timed else 1)) * 100)):
                s.update(range(max(0, c - 25), c + 26))
            marks = sorted(s)
        for m in marks:
            for name, p in (c11.forms_time(m) if timed else c11.forms_len(m)):
                mon.submit('qkidsScore', [ct, ev, p])
        for nm in [k for k, v in Q._compTypeMap.items() if v == ct]:
            mon.submit('qkidsScore', [nm.title(), ev, p10])
            mon.submit('qkidsScore', [' '.join(nm.lower()), ev, p100])
    if i == 0:
        mon.submit('qkidsScore', ['NOPE', '100', 12.0])
        mon.submit('qkidsScore', ['QKSEC', 'HJ', 1.2])


WORK = [w_roundup, w_format, w_parse, w_normalize, w_tyrving, w_qkids]


def run_shard(ctx, spec):
    core.import_athlib()
    try:
        mon = Monitor(ctx)
    except Exception as e:
        ctx.inconclusive.append('node bridge unavailable: %s' % str(e)[:200])
        return
    ctx.info['node_exports'] = mon.bridge.info.get('ready')
    rnd = random.Random(ctx.seed * 50021 + spec['i'])
    for w in WORK:
        w(mon, ctx, rnd, spec['i'], spec['n'])
    mon.flush()
    mon.bridge.close()


def post_merge(merged, tier, seed):
    for fn in PAIRS:
        merged['required']['judged.' + fn] = 20


def shards(tier, seed):
    return [{'i': i, 'n': 16} for i in range(16)]


def replay(ctx, cases):
    core.import_athlib()
    mon = Monitor(ctx)
    for c in cases:
        mon.submit(c['fn'], c['args'])
    mon.flush()
    mon.bridge.close()
