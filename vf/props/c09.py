"""C09 - performance-needed is the exact inverse of the combined-events score.

Monitor: recorder on athlib.athlon_score.performance (alias athlon_performance_needed); every
observed call is judged with the *real* score function (two-sided condition); the exact
oracle of C01 is evaluated alongside to attribute a failure to the forward or inverse side.
"""
import sys

from .. import attach, core
from ..oracles import athlon as O

META = {
    'rule': ('exhaustive: every row of the live scoring table x every integer target in the tier range; '
             'distinct_nontrivial = distinct (row, target>=1) for which both sides of the condition were '
             'evaluated with a positive score; plus unknown pairs and negative targets'),
    'exhaustive': True,
    'assumptions': ['the real athlon_score is the oracle for the two-sided condition, as the property relates the two functions',
                    'for targets <= 0 only the first clause and negative==zero are judged (scores are never negative)'],
}
UNKNOWN = [('M', 'SP6K'), ('F', 'JT600'), ('M', 'HT4K'), ('F', 'DT1K'), ('M', 'XYZ'), ('F', '110H'), ('X', '100'), ('M', ''), ('F', 'DEC'), ('M', '4x100'), ('F', '1000')]


class Monitor(object):
    def __init__(self, ctx):
        self.ctx = ctx
        self.mod = sys.modules['athlib.athlon_score']
        self.live = O.live_rows(self.mod)
        self.raw_score = self.mod.score
        attach.monitor(self.mod, 'performance', self.on_perf)
        import athlib
        self.perf = athlib.athlon_performance_needed
        assert self.perf is self.mod.performance

    def on_perf(self, args, kwargs, out):
        ctx = self.ctx
        ctx.count('eval.performance')
        g, e, t = (list(args) + [kwargs.get('score')])[:3]
        if not isinstance(t, int) or isinstance(t, bool):
            ctx.count('unjudged.target-type')
            return
        if not isinstance(g, str) or not isinstance(e, str):
            ctx.count('unjudged.hostile-argument-types')
            return
        case = {'g': g, 'e': e, 't': t}
        known = (g, e) in self.live
        respelled = not known and (g.strip().upper(), e.strip().upper()) in self.live
        if respelled:
            # another spelling (letter case, surrounding blanks) of a scored pair.  Whether it is answered at all is the
            # library's business, but an answer is judged like any other: with the real score of the very same spelling
            if out.ok and out.value is None:
                ctx.count('unspecified.respelled-pair-not-answered')
                return
            ctx.count('judged.respelled-pair-answered')
            e_kind = e.strip().upper()
        elif not known:
            if out.ok and out.value is None:
                ctx.nt(('none', g, e, t))
                ctx.count('judged.unknown-pair')
            else:
                ctx.violation('unknown-pair:%s' % ('answered' if out.ok else 'raise:' + type(out.value).__name__), case, None, repr(out))
            return
        if not out.ok:
            ctx.violation('raise:%s' % type(out.value).__name__, case, 'a mark', repr(out))
            return
        p = out.value
        if isinstance(p, (int, float)) and p < 0 and O.kind_of(e.strip().upper()) == 't' and t > 1500:
            # beyond the property's target range and beyond the score of a zero time: no mark can reach it
            ctx.count('unspecified.target-beyond-the-score-of-a-zero-time')
            return
        n = int(round(p * 100)) if isinstance(p, (int, float)) else None
        if n is None or abs(p * 100 - n) > 1e-6 or n < 0:
            ctx.violation('answer-off-grid', case, 'mark on the 0.01 grid', repr(p))
            return
        k = O.kind_of(e.strip().upper() if respelled else e)
        got = self.raw_score(g, e, n / 100)
        ctx.count('eval.score-of-answer')
        tt = max(t, 0)
        if got is None or got < tt:
            side = self.blame(g, e, n, got)
            ctx.violation('answer-does-not-reach-target:' + side, dict(case, answer=p), '>= %d' % tt, got)
            return
        if t >= 1:
            nw = n + 1 if k == 't' else n - 1          # next worse mark on the grid
            worse = self.raw_score(g, e, nw / 100) if nw >= 0 else 0
            ctx.count('eval.score-of-next-worse')
            if worse is None or worse >= t:
                side = self.blame(g, e, nw, worse)
                ctx.violation('next-worse-mark-still-reaches-target:' + side, dict(case, answer=p, worse=nw / 100), '< %d' % t, worse)
                return
            ctx.nt((g, e, t))
            ctx.count('judged.two-sided')
            ctx.sample('two-sided', dict(case, answer=p, score=got, worse_mark=nw / 100, worse_score=worse), 4)
        else:
            ctx.count('judged.nonpositive-target')
            if t < 0:
                z = attach.call(attach.original(self.perf), g, e, 0)
                if not z.ok or z.value != p:
                    ctx.violation('negative-target-differs-from-zero', case, repr(z), p)
                else:
                    ctx.nt((g, e, t))

    def blame(self, g, e, n, got):
        if (g, e) not in self.live:
            return 'respelled-pair'
        exp = O.exact_score(core.REPO, self.live, g, e, n)
        return 'forward-score-wrong' if exp[0] == 'points' and exp[1] != got else 'inverse-wrong'


def run_shard(ctx, spec):
    core.import_athlib()
    mon = Monitor(ctx)
    rows = sorted(mon.live)[spec['i']::spec['n']]
    hi = 1500 if ctx.tier == 'quick' else 3000
    for (g, e) in rows:
        if (g, e) != ('M', '800'):
            for t in range(-10, hi + 1):
                attach.call(mon.perf, g, e, t)
        else:
            # hostile mix: the ESAA variant of the forward score is used on the same marks FIRST
            # (a stale memo or a mutated coefficient row would poison the standard answers)
            raw = attach.original(mon.perf)
            for t in range(1, hi + 1):
                p = raw(g, e, t)
                for q in (p, round(p + 0.01, 2)):
                    mon.raw_score(g, e, q, esaa=True)
                attach.call(mon.perf, g, e, t)
                ctx.count('eval.esaa-interleaved')
            for t in range(-10, hi + 1):
                attach.call(mon.perf, g, e, t)
    # other spellings of the shard's rows (the forward and the inverse function must agree on what they accept)
    import random
    rnd = random.Random(ctx.seed * 7919 + spec['i'])
    for (g, e) in rows:
        for gs, es in [(g.lower(), e), (g.lower(), e.lower()), (g, e.lower()), (g, e.capitalize()), (g, e + ' '), (g, e + '\n'),
                       (g, ' ' + e), (g.lower(), e + '\t'), (g + ' ', e)]:
            if (gs, es) in mon.live:
                continue
            for t in list(range(0, 1400, 53)) + [rnd.randrange(1, 1300) for _ in range(10)]:
                attach.call(mon.perf, gs, es, t)
    # history: rows of every kind interleaved, with the calls of a careless caller (wrong argument types, most of them refused)
    # in between - a refused call must leave nothing behind that a later well-formed call can see
    allrows = sorted(mon.live)
    raw = attach.original(mon.perf)
    for _ in range(700 if ctx.tier == 'quick' else 6000):
        (g1, e1), (g2, e2) = rnd.choice(allrows), rnd.choice(allrows)
        attach.call(mon.perf, g1, e1, rnd.randrange(1, 1300))
        bad_e = [int(e2) if e2.isdigit() else 100, None, 1.5, [e2], e2.encode(), (e2,)]
        k = rnd.randrange(6)
        if k == 0:
            attach.call(raw, g2, rnd.choice(bad_e), 800)
        elif k == 1:
            attach.call(mon.raw_score, g2, rnd.choice(bad_e), 10.0)
        elif k == 2:
            attach.call(raw, g2, e2, rnd.choice(['800', None, [800], 1e400, float('nan')]))
        elif k == 3:
            attach.call(mon.raw_score, g2, e2, rnd.choice(['abc', None, [1.0]]))
        elif k == 4:
            attach.call(raw, rnd.choice([None, 1, b'M']), e2, 800)
        else:
            attach.call(mon.raw_score, g2, e2, 10.0, age=rnd.choice(['40', [40], 1e400]))
        ctx.count('eval.hostile-call')
        attach.call(mon.perf, g2, e2, rnd.randrange(1, 1300))
    if spec['i'] == 0:
        # unknown pairs: every event (and the veterans' hurdles aliases) under a gender label that is neither M nor F, through
        # the inverse and - they must agree on what is unknown - the forward function
        evs = sorted(set(e for _, e in mon.live)) + ['80H', '100H', '110H', 'SP4K', 'JT600', 'BT1K', 'ST5K', 'CT4K', 'DT1.5K', 'HT4K', 'WT9.08K']
        for g in ('X', '?', '', 'W', 'B', 'MF', 'Male', 'female', 'U', '0'):
            for e in evs:
                attach.call(mon.perf, g, e, 700)
                o = attach.call(mon.raw_score, g, e, 14.0)
                ctx.count('eval.forward-score-of-unknown-pair')
                if not o.ok or o.value is not None:
                    ctx.violation('unknown-pair:forward-score:%s' % ('raise:' + type(o.value).__name__ if not o.ok else 'answered'),
                                  {'g': g, 'e': e, 't': 'score of 14.0'}, None, repr(o))
        for g, e in UNKNOWN:
            for t in (-5, 0, 1, 500, 1500):
                attach.call(mon.perf, g, e, t)
    ctx.info['rows'] = len(rows)
    ctx.info['targets_per_row'] = hi + 11
    ctx.require('judged.two-sided', 1000)


def shards(tier, seed):
    return [{'i': i, 'n': 16} for i in range(16)]


def replay(ctx, cases):
    core.import_athlib()
    mon = Monitor(ctx)
    for c in cases:
        o = attach.call(mon.perf, c['g'], c['e'], c['t'])
        print('  athlon_performance_needed(%r, %r, %r) -> %r' % (c['g'], c['e'], c['t'], o))
