"""C09 - performance-needed is the exact inverse of the combined-events score.

Monitor: recorder on athlib.athlon_score.performance (alias athlon_performance_needed); every
observed call is judged with the *real* score function (two-sided condition); the exact
oracle of C01 is evaluated alongside to attribute a failure to the forward or inverse side.
"""
import sys

from .. import attach, core
from ..oracles import athlon as O

META = {
    'rule': ('exhaustive: every row of the live scoring table x every integer target in the tier range; '
             'distinct_nontrivial = distinct (row, target>=1) for which both sides of the condition were '
             'evaluated with a positive score; plus unknown pairs and negative targets'),
    'exhaustive': True,
    'assumptions': ['the real athlon_score is the oracle for the two-sided condition, as the property relates the two functions',
                    'for targets <= 0 only the first clause and negative==zero are judged (scores are never negative)'],
}
UNKNOWN = [('M', 'XYZ'), ('F', '110H'), ('X', '100'), ('M', ''), ('F', 'DEC'), ('M', '4x100'), ('F', '1000')]


class Monitor(object):
    def __init__(self, ctx):
        self.ctx = ctx
        self.mod = sys.modules['athlib.athlon_score']
        self.live = O.live_rows(self.mod)
        self.raw_score = self.mod.score
        attach.monitor(self.mod, 'performance', self.on_perf)
        import athlib
        self.perf = athlib.athlon_performance_needed
        assert self.perf is self.mod.performance

    def on_perf(self, args, kwargs, out):
        ctx = self.ctx
        ctx.count('eval.performance')
        g, e, t = (list(args) + [kwargs.get('score')])[:3]
        if not isinstance(t, int) or isinstance(t, bool):
            ctx.count('unjudged.target-type')
            return
        case = {'g': g, 'e': e, 't': t}
        known = (g, e) in self.live
        if not known:
            if g not in ('M', 'F') and (g, e) not in UNKNOWN:
                ctx.count('unjudged.gender-spelling')
                return
            if out.ok and out.value is None:
                ctx.nt(('none', g, e, t))
                ctx.count('judged.unknown-pair')
            else:
                ctx.violation('unknown-pair:%s' % ('answered' if out.ok else 'raise:' + type(out.value).__name__), case, None, repr(out))
            return
        if not out.ok:
            ctx.violation('raise:%s' % type(out.value).__name__, case, 'a mark', repr(out))
            return
        p = out.value
        if isinstance(p, (int, float)) and p < 0 and O.kind_of(e) == 't' and t > 1500:
            # beyond the property's target range and beyond the score of a zero time: no mark can reach it
            ctx.count('unspecified.target-beyond-the-score-of-a-zero-time')
            return
        n = int(round(p * 100)) if isinstance(p, (int, float)) else None
        if n is None or abs(p * 100 - n) > 1e-6 or n < 0:
            ctx.violation('answer-off-grid', case, 'mark on the 0.01 grid', repr(p))
            return
        k = O.kind_of(e)
        got = self.raw_score(g, e, n / 100)
        ctx.count('eval.score-of-answer')
        tt = max(t, 0)
        if got is None or got < tt:
            side = self.blame(g, e, n, got)
            ctx.violation('answer-does-not-reach-target:' + side, dict(case, answer=p), '>= %d' % tt, got)
            return
        if t >= 1:
            nw = n + 1 if k == 't' else n - 1          # next worse mark on the grid
            worse = self.raw_score(g, e, nw / 100) if nw >= 0 else 0
            ctx.count('eval.score-of-next-worse')
            if worse is None or worse >= t:
                side = self.blame(g, e, nw, worse)
                ctx.violation('next-worse-mark-still-reaches-target:' + side, dict(case, answer=p, worse=nw / 100), '< %d' % t, worse)
                return
            ctx.nt((g, e, t))
            ctx.count('judged.two-sided')
            ctx.sample('two-sided', dict(case, answer=p, score=got, worse_mark=nw / 100, worse_score=worse), 4)
        else:
            ctx.count('judged.nonpositive-target')
            if t < 0:
                z = attach.call(attach.original(self.perf), g, e, 0)
                if not z.ok or z.value != p:
                    ctx.violation('negative-target-differs-from-zero', case, repr(z), p)
                else:
                    ctx.nt((g, e, t))

    def blame(self, g, e, n, got):
        exp = O.exact_score(core.REPO, self.live, g, e, n)
        return 'forward-score-wrong' if exp[0] == 'points' and exp[1] != got else 'inverse-wrong'


def run_shard(ctx, spec):
    core.import_athlib()
    mon = Monitor(ctx)
    rows = sorted(mon.live)[spec['i']::spec['n']]
    hi = 1500 if ctx.tier == 'quick' else 3000
    for (g, e) in rows:
        if (g, e) != ('M', '800'):
            for t in range(-10, hi + 1):
                attach.call(mon.perf, g, e, t)
        else:
            # hostile mix: the ESAA variant of the forward score is used on the same marks FIRST
            # (a stale memo or a mutated coefficient row would poison the standard answers)
            raw = attach.original(mon.perf)
            for t in range(1, hi + 1):
                p = raw(g, e, t)
                for q in (p, round(p + 0.01, 2)):
                    mon.raw_score(g, e, q, esaa=True)
                attach.call(mon.perf, g, e, t)
                ctx.count('eval.esaa-interleaved')
            for t in range(-10, hi + 1):
                attach.call(mon.perf, g, e, t)
    if spec['i'] == 0:
        for g, e in UNKNOWN:
            for t in (-5, 0, 1, 500, 1500):
                attach.call(mon.perf, g, e, t)
    ctx.info['rows'] = len(rows)
    ctx.info['targets_per_row'] = hi + 11
    ctx.require('judged.two-sided', 1000)


def shards(tier, seed):
    return [{'i': i, 'n': 16} for i in range(16)]


def replay(ctx, cases):
    core.import_athlib()
    mon = Monitor(ctx)
    for c in cases:
        o = attach.call(mon.perf, c['g'], c['e'], c['t'])
        print('  athlon_performance_needed(%r, %r, %r) -> %r' % (c['g'], c['e'], c['t'], o))
