"""C07 - event-code normalisation yields one canonical, valid, stable spelling.

Monitor: recorder on athlib.utils.normalize_event_code (aliases rebound) judging closure
(accepted, no whitespace, idempotent, family/kind preserved) and refusal on every observed
call; a class monitor compares all spellings the variant generator declares equivalent.
"""
import random
import re
import sys

from .. import attach, core
from ..gen import relang

META = {
    'rule': ('codes generated from the syntax tree of the current PAT_EVENT_CODE and of each family pattern (every '
             'alternative, option, class member incl. non-ASCII digits and all whitespace characters) plus the keys of '
             'the scoring tables; for each code its case / whitespace / unit-suffix / trailing-zero variants (kept when the '
             'real checker accepts them) form an equivalence class; near-miss strings drive the refusal clause. '
             'distinct_nontrivial = distinct accepted inputs whose normal form differs from the input, plus distinct '
             'classes with >= 2 accepted spellings, plus distinct refused strings'),
    'assumptions': ['family clause read one-directionally: F(c) => F(N(c)) (see DESIGN 3.C07)',
                    'a string is "not an event code" when check_event_code(s.strip()) is None'],
}

FAMS = ['PAT_TRACK', 'PAT_HURDLES', 'PAT_ROAD', 'PAT_RELAYS', 'PAT_JUMPS', 'PAT_THROWS', 'PAT_MULTI',
        'PAT_RACES_FOR_DISTANCE', 'PAT_HIGHSCORING_EVENT', 'PAT_LOWSCORING_EVENT']
KINDS = ['PAT_TIMED_EVENT', 'PAT_FIELD', 'PAT_MULTI', 'PAT_RACES_FOR_DISTANCE']
NUMGROUPS = ('dtnum', 'htnum', 'spnum', 'wtnum', 'swtnum', 'btnum', 'stnum', 'gdtnum')


def mech_of_input(s, codes):
    """Mechanism predicates over the input (used as known-finding keys)."""
    tags = []
    if any(ch.isspace() and ch != ' ' for ch in s.strip()):
        tags.append('non-space-whitespace-inside')
    if any(ch.isdigit() and not ('0' <= ch <= '9') for ch in s):
        tags.append('non-ascii-digit')
    m = codes['PAT_THROWS'].match(s.strip())
    if m:
        if m.groupdict().get('wtnum'):
            tags.append('weight-throw-with-weight')
        if re.match(r'^[sS]s[tT]', s.strip()):
            tags.append('sst-spelling')
        for g in NUMGROUPS:
            v = m.groupdict().get(g)
            if v and re.search(r'^\s*\d*0\.0*\s*[Kk]|^\s*\d0+\.0*\s*[Kk]', v):
                tags.append('weight-integer-part-ends-in-zero-with-decimal-point')
    m = codes['PAT_TRACK'].match(s.strip()) or codes['PAT_HURDLES'].match(s.strip())
    if m and re.search(r'\d0+\.0*(cm|m)', s):
        tags.append('hurdle-spec-integer-part-ends-in-zero-with-decimal-point')
    return '+'.join(tags) or 'plain'


class Monitor(object):
    def __init__(self, ctx):
        self.ctx = ctx
        self.u = sys.modules['athlib.utils']
        cm = sys.modules['athlib.codes']
        self.codes = {k: v for k, v in vars(cm).items() if k.startswith('PAT_')}
        attach.monitor(self.u, 'normalize_event_code', self.on_norm)
        import athlib
        self.N = athlib.normalize_event_code
        assert self.N is self.u.normalize_event_code
        self.rawN = attach.original(self.N)
        self.check = self.u.check_event_code
        self.cls = None

    def fams(self, s):
        return set(f for f in FAMS if self.codes[f].match(s))

    def kind(self, s):
        return tuple(k for k in KINDS if self.codes[k].match(s))

    def on_norm(self, args, kwargs, out):
        ctx = self.ctx
        ctx.count('eval.normalize')
        c = args[0] if args else kwargs.get('c')
        if not isinstance(c, str):
            ctx.count('unjudged.non-text')
            return
        case = {'c': c}
        accepted = self.check(c) is not None
        is_code = self.check(c.strip()) is not None
        tag = mech_of_input(c, self.codes)
        if not is_code:
            ctx.count('judged.refusal')
            if out.ok or not isinstance(out.value, ValueError):
                ctx.violation('refusal:non-code-not-refused-with-ValueError', case, 'ValueError', repr(out))
            else:
                ctx.nt(('r', c))
            return
        if not out.ok:
            ctx.violation('raise:%s:%s' % (type(out.value).__name__, tag), case, 'a code', repr(out))
            return
        n = out.value
        if self.cls is not None:
            self.cls.append((c, n))
        if not accepted:
            ctx.count('unjudged.accepted-only-after-strip')
            return
        ctx.count('judged.closure')
        bad = False
        if not isinstance(n, str) or self.check(n) is None:
            ctx.violation('closure:normal-form-not-accepted:%s' % tag, case, 'accepted code', n)
            return
        if any(ch.isspace() for ch in n):
            ctx.violation('closure:whitespace-in-normal-form:%s' % tag, case, 'no whitespace', n)
            bad = True
        o2 = attach.call(self.rawN, n)
        if not o2.ok or o2.value != n:
            ctx.violation('closure:not-idempotent:%s' % tag, case, n, repr(o2))
            bad = True
        lost = self.fams(c) - self.fams(n)
        if lost:
            ctx.violation('closure:family-lost:%s:%s' % ('+'.join(sorted(lost)), tag), case, sorted(self.fams(c)), sorted(self.fams(n)))
            bad = True
        if self.kind(c) != self.kind(n):
            ctx.violation('closure:measurement-kind-changed:%s' % tag, case, self.kind(c), self.kind(n))
            bad = True
        if not bad and n != c:
            if ctx.nt(('n', c)):
                ctx.count('judged.closure-changed-spelling')
            ctx.sample('normalised', {'c': c, 'n': n}, 6)

    # ---- equivalence classes ------------------------------------------------------------
    def run_class(self, base, variants):
        self.cls = []
        for v in variants:
            attach.call(self.N, v)
        got = self.cls
        self.cls = None
        forms = {}
        for c, n in got:
            forms.setdefault(n, []).append(c)
        self.ctx.count('judged.classes')
        if len(got) >= 2:
            if len(forms) > 1:
                kinds = self.variant_kind(got)
                self.ctx.violation('class:spellings-normalise-differently:%s' % kinds,
                                   {'base': base, 'spellings': [c for c, n in got][:12]}, 'one normal form',
                                   {n: v[:3] for n, v in list(forms.items())[:4]})
            elif self.ctx.nt(('c', base)):
                self.ctx.count('judged.classes-multi')
                self.ctx.sample('class', {'spellings': [c for c, n in got][:6], 'normal': got[0][1]}, 5)

    @staticmethod
    def variant_kind(got):
        """which rewrite separates the disagreeing spellings (for the mechanism key)"""
        ks = set()
        ns = sorted(set(n for c, n in got))
        a, b = ns[0], ns[1]
        if a.upper() == b.upper():
            ks.add('case')
        if re.sub(r'\s', '', a) == re.sub(r'\s', '', b):
            ks.add('whitespace')
        if re.sub(r'KG?', 'K', a.upper()) == re.sub(r'KG?', 'K', b.upper()):
            ks.add('k-vs-kg')
        if re.sub(r'G$', '', a.upper()) == re.sub(r'G$', '', b.upper()):
            ks.add('g-suffix')
        if re.sub(r'\.?0*(?=[A-Z]|$)', '', a.upper()) == re.sub(r'\.?0*(?=[A-Z]|$)', '', b.upper()):
            ks.add('trailing-zeros')
        return '+'.join(sorted(ks)) or 'other'


def variants_of(c, mon, rnd):
    """Spellings that by construction denote the same event (kept if the checker accepts)."""
    out = [c, c.upper(), c.lower(), c.swapcase(), ''.join(ch.upper() if rnd.random() < .5 else ch.lower() for ch in c)]
    nows = re.sub(r'\s+', '', c)
    out.append(nows)
    if nows != c:
        for w in ('\t', '\xa0', '  ', '　'):
            out.append(re.sub(r'\s+', w, c))
    s = c.strip()
    m = mon.codes['PAT_THROWS'].match(s)
    if m:
        gd = m.groupdict()
        for g in NUMGROUPS:
            v = gd.get(g)
            if v and v.strip():
                st, en = m.span(g)
                mm = re.match(r'^(\s*)(\d?\d\.?\d*)(\s*)([Kk][Gg]?)$', v)
                if not mm:
                    continue
                num = mm.group(2)
                for suf in ('k', 'K', 'kg', 'Kg', 'kG', 'KG'):
                    out.append(s[:st] + num + suf + s[en:])
                    out.append(s[:st] + ' ' + num + ' ' + suf + s[en:])
                nums = []
                if '.' in num:
                    nums += [num + '0', num + '00', num.rstrip('0') if num.rstrip('0')[-1] != '.' else num.rstrip('0') + '0']
                    if num.rstrip('0').endswith('.'):
                        nums += [num.rstrip('0')[:-1], num.rstrip('0')]
                else:
                    nums += [num + '.0', num + '.', num + '.00']
                for n2 in nums:
                    out.append(s[:st] + n2 + 'K' + s[en:])
        # the same rewrites found on the text itself, whatever the pattern calls (or no longer calls) its groups
        mm = re.search(r'(\d+\.?\d*)\s*([Kk][Gg]?)\s*$', s)
        if mm and mm.start(1) >= 2:
            st, en, num = mm.start(1), len(s), mm.group(1)
            for suf in ('k', 'K', 'kg', 'KG', 'Kg'):
                out.append(s[:st] + num + suf)
                out.append(s[:st] + ' ' + num + ' ' + suf)
            if '.' in num:
                z = num.rstrip('0')
                alts = [num + '0', num + '00'] + ([z[:-1], z] if z.endswith('.') else [z])
            else:
                alts = [num + '.0', num + '.', num + '.00']
            for n2 in alts:
                if n2:
                    out.append(s[:st] + n2 + 'K')
        mm = re.search(r'(\d+)\s*[gG]?\s*$', s)
        if mm and mm.start(1) >= 2 and not re.search(r'[Kk][Gg]\s*$', s):
            st, num = mm.start(1), mm.group(1)
            for suf in ('', 'g', ' g'):
                out.append(s[:st] + num + suf)
        for g in ('jtnum', 'otnum'):
            v = gd.get(g)
            if v and v.strip():
                st, en = m.span(g)
                num = re.sub(r'\s*g$', '', v).strip()
                out.append(s[:st] + num + s[en:])
                out.append(s[:st] + num + 'g' + s[en:])
                out.append(s[:st] + num + ' g' + s[en:])
    m = mon.codes['PAT_TRACK'].match(s)
    if m:
        gd = m.groupdict()
        for g, unit in (('hhh', 'cm'), ('hsd', 'm'), ('hid', 'm')):
            v = gd.get(g)
            if v:
                st, en = m.span(g)
                num = v[:-len(unit)]
                if '.' in num:
                    alts = [num + '0', num + '00']
                    if num.rstrip('0').endswith('.'):
                        alts += [num.rstrip('0')[:-1], num.rstrip('0')]
                    else:
                        alts.append(num.rstrip('0'))
                else:
                    alts = [num + '.0', num + '.', num + '.00']
                for a in alts:
                    out.append(s[:st] + a + unit + s[en:])
    seen = []
    for v in out:
        if v not in seen and mon.check(v) is not None:
            seen.append(v)
    return seen


def table_keys():
    import athlib
    keys = set()
    for o in sys.modules['athlib.athlon_score']._scoring_table:
        keys.add(o['event_code'])
    for r in sys.modules['athlib.hungarian_score'].FACTORS:
        keys.add(r[2])
    for g, t in sys.modules['athlib.tyrving_score']._tyrvingTables.items():
        keys.update(t)
    for g, t in sys.modules['athlib.qkids_score']._qkidsTables.items():
        keys.update(t)
    keys.update(sys.modules['athlib.sportshall_score'].RAWDATA[0][1:])
    return sorted(keys)


class Odd(str):
    """a str subclass whose printed forms are not its value (enum members with a str mixin behave like this)"""

    def __str__(self):
        return 'Odd.' + str.upper(self)

    def __repr__(self):
        return '<Odd %s>' % str.__repr__(self)

    def __format__(self, spec):
        return 'Odd'


def run_shard(ctx, spec):
    core.import_athlib()
    mon = Monitor(ctx)
    rnd = random.Random(ctx.seed * 9176 + spec['i'])
    fams = ['PAT_EVENT_CODE'] + FAMS
    per = (2200 if ctx.tier == 'quick' else 60000)
    A = relang.literal_alphabet([mon.codes[f] for f in FAMS])
    full = A['letters'] + A['digits'] + A['ws'] + A['punct'] + A['foreign']
    codes = []
    for fi, fam in enumerate(fams):
        if fi % spec['n'] != spec['i'] % len(fams) % spec['n'] and spec['n'] <= len(fams):
            pass
        for ascii_only in (True, False):
            g = relang.Gen(mon.codes[fam], seed=ctx.seed * 13 + fi * 7 + spec['i'] * 1000 + ascii_only, ascii_only=ascii_only, maxrep=3)
            codes.extend(g.many(per // 2))
    if spec['i'] % 4 == 2:
        for fi, fam in enumerate(FAMS):
            g = relang.Gen(mon.codes[fam], seed=ctx.seed * 19 + fi + spec['i'], ascii_only=True, maxrep=1, long_repeats=(45, 130, 700))
            longs = [c for c in g.many(40) if len(c) > 40]
            ctx.count('eval.codes-longer-than-40-characters', len(longs))
            codes.extend(longs)
    if spec['i'] == 0:
        codes.extend(table_keys())
        codes.extend(['100.0cm', '60H100.0cm', '100H84.0cm8.50m13.00m', 'DT1.50K', 'DT 1.5 kg', 'SP7.260KG', 'sst', 'SST', 'SWT', 'swt',
                      'WT9.08kg', 'WT15.88K', 'JT800g', 'JT 800 g', 'OT150 g', 'SP0.K', 'SP0.0K', 'h1', 'l9', 'dec', '4X100', '4xrelay',
                      '4xsmr', 'T30', 't5', '24hr', '1HW', 'mile', 'Mar', 'hmw', 'xc', '5k', '5kw', '10.5K', '2MILE', '100 y', '100\tH',
                      '110 H 106.7cm 9.14m 13.72m', 'LH', 'sh', 'SC', '3mt', 'SPB', 'BAL',
                      # distances that have a name of their own (marathon, half marathon, the mile and its multiples, common road
                      # distances): as track codes they stay what they are
                      '42195', '42195W', '42195 w', '21097', '21098', '21098W', '21097.5', '1609', '1609W', '1609 w', '1609.344', '3218', '3219',
                      '5000', '5000W', '10000', '10000w', '20000W', '50000W', '26.2M', '13.1M', '1M', '1.0M', '42.195K', '42.2K', '21.1K',
                      '1000', '1500', '3000', '100000', '1852', '1760Y', '880Y', '440y', '220y'])
    for c in codes:
        if mon.check(c) is None:
            attach.call(mon.N, c)
            continue
        mon.run_class(c, variants_of(c, mon, rnd))
        # padding is documented as removed
        attach.call(mon.N, '  ' + c + '\t')
    # a string is a string: an enum member or another str subclass that prints differently is normalised by its value
    for c in codes[::17]:
        if mon.check(c) is not None:
            want = attach.call(attach.original(mon.N), c)
            got = attach.call(mon.N, Odd(c))
            ctx.count('eval.str-subclass-argument')
            if want.ok and (not got.ok or got.value != want.value):
                ctx.violation('argument-type:str-subclass-normalised-differently', {'c': c, 'as': 'str subclass with its own __str__/__format__'},
                              repr(want), repr(got))
    # refusal clause: near misses
    nm = 0
    for c in codes[:: (2 if ctx.tier == 'quick' else 1)]:
        for m in relang.mutants(c, full, rnd, 3):
            attach.call(mon.N, m)
            nm += 1
        # look-alike characters (superscript digits, long s, Kelvin sign, full-width forms): what str.isdigit()/upper() accept
        # and the patterns do not
        for m in relang.lookalikes(c, rnd, 3):
            attach.call(mon.N, m)
            ctx.count('eval.lookalike-spelling')
    for c in codes[::9]:
        if mon.check(c) is not None:
            for inv in ('\ufeff', '\u200b', '\u00ad', '\u200e', '\u2060', '\x00', '\x7f'):
                attach.call(mon.N, inv + c)
                attach.call(mon.N, c + inv)
                ctx.count('eval.invisible-character-around-a-code')
    for s in ['\u00b2', '10\u00b2', '\u00b9\u2070\u2070', '\u2460', '4\u2070\u2070', '\u2167', '\u00bd', '\u0661\u0660\u0660', '\uff11\uff10\uff10',
              '100%', '%s', '4x%d', 'DT%(w)s', '{0}', 'SP{}K', '\\', '$1', 'HJ%', '%', '100{', 'JT}', '(HJ', '[SP]', '100|200',
              '', ' ', 'X', '100X', 'H0', 'L0', 'DTT', '4x', 'x100', '100 m', 'HJJ', 'SP7.26KGG', 'JT900', 'None', '\n', 'DEC\n\n']:
        attach.call(mon.N, s)
    ctx.require('judged.closure', 500)
    ctx.require('judged.classes-multi', 200)
    ctx.require('judged.refusal', 200)


def shards(tier, seed):
    return [{'i': i, 'n': 16} for i in range(16)]


def replay(ctx, cases):
    core.import_athlib()
    mon = Monitor(ctx)
    for c in cases:
        if 'spellings' in c:
            print('  class of %r:' % c['base'])
            for s in c['spellings']:
                print('     N(%r) -> %r' % (s, attach.call(mon.rawN, s)))
            mon.run_class(c['base'], c['spellings'])
        else:
            print('  N(%r) -> %r' % (c['c'], attach.call(mon.N, c['c'])))
