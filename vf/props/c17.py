"""C17 - implement weights and weight-specific codes stay inside the vocabulary.

Monitors: recorders on athlib.implements.get_specific_event_code / get_implement_weight
(aliases rebound); closure judged with the real checker / normaliser, weight parsed back
with an independent mini-parser; masters bands compared numerically; key scan over the live
tables.
"""
import datetime
import json
import os
import random
import re
import sys

from .. import attach, core
from ..gen import relang

META = {
    'rule': ('exhaustive cross product {SP,DT,HT,JT,WT} x {M,F} x age-group labels (U9..U20, U23, SEN, V35..V130 in fives, '
             'labels produced by the real calc_uka_age_group over a date sweep, arbitrary labels) through the real '
             'get_specific_event_code; non-throw codes from the pattern syntax trees; every key of every scoring / grading '
             'table. distinct_nontrivial = distinct (event, gender, label) with a tabulated weight whose specific code was '
             'judged + distinct table keys + distinct non-throw codes passed through'),
    'exhaustive': True,
    'assumptions': ['a label without a tabulated weight only has to yield a valid code or pass-through (no exception)'],
}
THROWS = ('SP', 'DT', 'HT', 'JT', 'WT')


def band(label):
    m = re.match(r'^V(\d+)$', label)
    return int(m.group(1)) if m else None


def family_band(label):
    """(prefix, number) of a label made of one or two letters and a number: V50, and M50 / W50 / O50 should the library ever learn
    another federation's spelling of the masters groups - whatever vocabulary it answers for must be monotone as well"""
    m = re.match(r'^([A-Za-z]{1,2})([0-9]+)$', label)
    return (m.group(1), int(m.group(2))) if m else None


class Monitor(object):
    def __init__(self, ctx):
        self.ctx = ctx
        self.im = sys.modules['athlib.implements']
        self.u = sys.modules['athlib.utils']
        cm = sys.modules['athlib.codes']
        self.PAT_THROWS = cm.PAT_THROWS
        attach.monitor(self.im, 'get_specific_event_code', self.on_specific)
        attach.monitor(self.im, 'get_implement_weight', self.on_weight)
        import athlib
        self.spec = athlib.get_specific_event_code
        self.weight = athlib.get_implement_weight
        assert self.spec is self.im.get_specific_event_code
        self.raw_weight = attach.original(self.weight)
        self.check = self.u.check_event_code
        self.norm = self.u.normalize_event_code
        self.weights = {}     # (event, gender) -> {band: kg}
        self.other_families = {}     # (event, gender, prefix other than V) -> {band: kg}
        self.ambient = None   # description of the perturbed process-wide state the current calls run under

    def on_weight(self, args, kwargs, out):
        ctx = self.ctx
        ctx.count('eval.weight')
        if len(args) < 3:
            return
        e, g, ag = args[:3]
        if e not in THROWS or g not in ('M', 'F') or not isinstance(ag, str):
            return
        case = {'e': e, 'g': g, 'ag': ag}
        if not out.ok:
            ctx.violation('weight:raise:%s' % type(out.value).__name__, case, 'text weight or empty', repr(out))
            return
        w = out.value
        if w != '' and not (isinstance(w, str) and re.match(r'^\d+(\.\d+)?$', w)):
            ctx.violation('weight:malformed', case, 'decimal text', repr(w))
            return
        b = band(ag)
        if b is not None and b >= 35 and b % 5 == 0:      # the five-year bands the library itself produces
            num = None if w == '' else float(w)
            self.weights.setdefault((e, g), {})[b] = num
        fb = family_band(ag)
        if fb is not None and fb[0] != 'V' and fb[1] >= 35 and fb[1] % 5 == 0 and len(ag) < 8:
            self.other_families.setdefault((e, g, fb[0]), {})[fb[1]] = None if w == '' else float(w)

    def check_masters(self):
        """masters implements never get heavier as the band rises (numeric band order)"""
        ctx = self.ctx
        for (e, g), d in sorted(self.weights.items(), key=lambda kv: (kv[0][0], kv[0][1])):
            bands = sorted(d)
            prev = None
            for b in bands:
                w = d[b]
                ctx.count('eval.masters-band')
                case = {'e': e, 'g': g, 'ag': 'V%d' % b}
                if w is None:
                    if prev is not None:
                        key = 'masters:no-implement-for-older-band'
                        if b >= 100:
                            key += ':band>=V100(labels-compared-as-strings)'
                        ctx.violation(key, case, '<= %s (as for V%d)' % prev, 'no weight')
                    continue
                if prev is not None and w > prev[0]:
                    key = 'masters:heavier-implement-for-older-band'
                    if b >= 100:
                        key += ':band>=V100(labels-compared-as-strings)'
                    ctx.violation(key, case, '<= %s (V%d)' % prev, w)
                else:
                    ctx.nt(('band', e, g, b))
                prev = (w, b) if prev is None or w <= prev[0] else prev

    def check_other_families(self):
        """a label family other than V that the library answers for (today none does): same rule, no gaps and never heavier"""
        ctx = self.ctx
        for (e, g, pre), d in sorted(self.other_families.items()):
            if all(v is None for v in d.values()):
                continue
            prev = None
            for b in sorted(d):
                w = d[b]
                ctx.count('eval.other-label-family-band')
                case = {'e': e, 'g': g, 'ag': '%s%d' % (pre, b)}
                if w is None:
                    if prev is not None:
                        ctx.violation('masters:no-implement-for-older-band:label-family-%s' % pre, case, '<= %s (as for %s%d)' % (prev[0], pre, prev[1]), 'no weight')
                    continue
                if prev is not None and w > prev[0]:
                    ctx.violation('masters:heavier-implement-for-older-band:label-family-%s' % pre, case, '<= %s (%s%d)' % (prev[0], pre, prev[1]), w)
                prev = (w, b) if prev is None or w <= prev[0] else prev

    def on_specific(self, args, kwargs, out):
        ctx = self.ctx
        ctx.count('eval.specific')
        if len(args) < 3:
            return
        e, g, ag = args[:3]
        if not isinstance(e, str):
            return
        case = {'e': e, 'g': g, 'ag': ag}
        if self.ambient:
            case['ambient'] = self.ambient
        if e in THROWS and not isinstance(ag, str):
            return
        if e not in THROWS:
            if not out.ok or out.value != e:
                ctx.violation('specific:non-throw-not-passed-through', case, e, repr(out))
            else:
                ctx.count('judged.pass-through')
                ctx.nt(('pt', e))
            return
        wt = attach.call(self.raw_weight, e, g, ag)
        if not out.ok:
            key = 'specific:raise:%s' % type(out.value).__name__
            if wt.ok and wt.value == '':
                key += ':label-without-tabulated-weight'
            ctx.violation(key, case, 'a throws code', repr(out))
            return
        code = out.value
        if not isinstance(code, str) or self.check(code) is None:
            ctx.violation('specific:code-not-accepted', case, 'accepted code', repr(code))
            return
        if not self.PAT_THROWS.match(code):
            ctx.violation('specific:not-a-throws-code', case, 'throws code', code)
            return
        n = attach.call(self.norm, code)
        if not n.ok or n.value != code:
            ctx.violation('specific:code-not-normalised', case, code, repr(n))
            return
        if not (wt.ok and wt.value):
            ctx.count('judged.no-weight-label')
            if code != e and not code.startswith(e):
                ctx.violation('specific:other-event-for-unweighted-label', case, e, code)
            elif re.search(r'\d', code):
                # the table reports no weight for this label: a code that carries one contradicts it
                ctx.violation('specific:weight-invented-for-label-without-tabulated-weight', case, e, code)
            return
        # weight parsed back from the code with an independent mini-parser
        m = re.match(r'^(SP|DT|HT|JT|WT)(\d+(?:\.\d+)?)(K?)$', code)
        if not m or m.group(1) != e:
            ctx.violation('specific:unparseable-weight', case, '%s<weight>[K]' % e, code)
            return
        val = float(m.group(2))
        kg = val if m.group(3) == 'K' else val / 1000.0
        want = float(wt.value)
        want_kg = want if want < 99 else want / 1000.0
        if abs(kg - want_kg) > 1e-9:
            ctx.violation('specific:weight-differs-from-table', case, wt.value, code)
            return
        ctx.count('judged.specific-with-weight')
        if ctx.nt(('sp', e, g, ag)):
            ctx.sample('specific', dict(case, code=code, weight=wt.value), 6)


def labels_from_library(rnd, n):
    import athlib
    out = set()
    for _ in range(n):
        m = datetime.date(2024, 1, 1) + datetime.timedelta(days=rnd.randrange(1461))
        b = m - datetime.timedelta(days=rnd.randrange(0, 115 * 365))
        for cat in ('TF', 'XC', 'ROAD'):
            for u in (False, True):
                try:
                    out.add(athlib.calc_uka_age_group(b, m, cat, underage=u))
                except Exception:
                    pass
    return sorted(out)


def table_keys(ctx):
    """(table name, key) for every event-code key used by the library's own tables."""
    keys = []
    for o in sys.modules['athlib.athlon_score']._scoring_table:
        keys.append(('athlon', o['event_code']))
    # the table as the scorer holds it after it has been used with every option (a row added at run time counts as well)
    am = sys.modules['athlib.athlon_score']
    for a, k in ((('M', '800', 120.0), {'esaa': True}), (('F', '100', 13.0), {'age': 50}), (('M', '80H', 14.0), {'age': 60}), (('F', 'JT', 30.0), {})):
        attach.call(am.score, *a, **k)
    attach.call(am.performance, 'M', 'HJ', 700)
    live = getattr(am, '_scoring_objects', None) or {}
    for o in (live.values() if isinstance(live, dict) else []):
        keys.append(('athlon-live', o.get('event_code') if isinstance(o, dict) else o))
    for r in sys.modules['athlib.hungarian_score'].FACTORS:
        keys.append(('hungarian', r[2]))
    for g, t in sys.modules['athlib.tyrving_score']._tyrvingTables.items():
        keys += [('tyrving-' + g, k) for k in t]
    for g, t in sys.modules['athlib.qkids_score']._qkidsTables.items():
        keys += [('qkids-' + g, k) for k in t]
    keys += [('sportshall', k) for k in sys.modules['athlib.sportshall_score'].RAWDATA[0][1:]]
    bs = sys.modules['athlib.bulgarian_score'].scores
    for k in bs:
        m = re.match(r'^(U\d+)([MFX])(.+)$', k)
        keys.append(('bulgarian', m.group(3) if m else k))
    # any other module-level table of a scoring module keyed '<gender>-<event code>' like the combined-events index (a table
    # added later is a scoring table too): discovered on the tree under test, not listed here
    known = set(id(x) for x in (am._scoring_objects,))
    for mname, m in sorted(sys.modules.items()):
        if not mname.startswith('athlib.') or m is None:
            continue
        for gname, gv in sorted(vars(m).items()):
            if isinstance(gv, dict) and gv and id(gv) not in known and all(isinstance(k, str) for k in gv):
                ks = [k for k in gv if re.match(r'^[MFmfXx]-[^-\s].*$', k)]
                if ks and len(ks) == len(gv):
                    for k in ks:
                        keys.append(('discovered:%s.%s' % (mname.split('.', 1)[1], gname), k.split('-', 1)[1]))
    import athlib
    for name, ag in (('wma2015', athlib.ag2015), ('wma2023', athlib.ag2023), ('wma-athlons', athlib.aag)):
        data = ag.get_data()
        for g in 'mf':
            for row in data[g]:
                keys.append(('%s-%s' % (name, g), row[0]))     # find_row_by_event matches column 0
    return keys


def run_shard(ctx, spec):
    core.import_athlib()
    mon = Monitor(ctx)
    rnd = random.Random(ctx.seed)
    labels = ['U9', 'U11', 'U13', 'U14', 'U15', 'U16', 'U17', 'U18', 'U20', 'U23', 'SEN'] + ['V%02d' % b for b in range(35, 135, 5)]
    labels += labels_from_library(rnd, 3000 if ctx.tier == 'quick' else 40000)
    labels += ['%s%d' % (pre, b) for pre in ('M', 'W', 'O', 'F', 'MV', 'WV', 'v', 'm', 'w') for b in range(35, 135, 5)]
    arbitrary = ['', 'weird', 'v40', 'V4', 'V', 'V035', 'V200', 'V1000', 'U', 'u13', 'SENIOR', 'OPEN', 'M40', 'W40', 'V40 ', ' V40', 'V99', 'V101',
                 'V36', 'V79', 'V80', 'V81', 'U12', 'U19', 'U21', 'None',
                 # characters str.isdigit() accepts and int() may not (superscripts, circled digits), other scripts' digits, signs
                 'V8\u00b2', 'V\u00b2', 'V\u2460', 'V\uff18\uff10', 'V80\u00b2', 'V\u0668\u0660', 'V\u00bd', 'V+80', 'V-80', 'V 80', 'V8_0', 'V080', 'V0080',
                 'V1e2', 'V80.0', 'V\u2078\u2070', 'V\u0f2a', 'V' + '9' * 50, 'V' + '0' * 50 + '80']
    chars = 'UVSEN0123456789 '
    arbitrary += [''.join(rnd.choice(chars) for _ in range(rnd.randrange(1, 6))) for _ in range(175)]
    labels = sorted(set(labels)) + arbitrary
    ctx.info['labels'] = len(labels)
    if spec.get('prelude') == 'respelled-first':
        # history: in this process every question is first asked in other spellings (lower case, padded, swapped case) and
        # only then properly - an answer remembered under a folded key would be served to the proper spelling afterwards
        for e in THROWS:
            for g in ('M', 'F'):
                for ag in labels:
                    for (e2, g2, a2) in ((e, g, ag.lower()), (e.lower(), g, ag), (e, g.lower(), ag), (e, g, ag + ' '), (e, g, ' ' + ag),
                                         (e.lower(), g.lower(), ag.lower()), (e, g, ag.swapcase()), (e.title(), g, ag.title())):
                        if (e2, g2, a2) != (e, g, ag):
                            attach.call(mon.weight, e2, g2, a2)
                            attach.call(mon.spec, e2, g2, a2)
                            ctx.count('eval.respelled-before-the-proper-spelling')
    for e in THROWS:
        for g in ('M', 'F'):
            for ag in labels:
                attach.call(mon.spec, e, g, ag)
                attach.call(mon.weight, e, g, ag)
    # history: the same questions again in a shuffled order, each asked twice in a row and once more after an
    # unrelated one (a remembered "last answer" or memo must not leak from one triple to the next)
    triples = [(e, g, ag) for e in THROWS for g in ('M', 'F') for ag in labels]
    rnd.shuffle(triples)
    prev = None
    for t in triples:
        attach.call(mon.spec, *t)
        attach.call(mon.spec, *t)
        if prev is not None:
            attach.call(mon.spec, *prev)
        prev = t
        ctx.count('eval.repeated-triple')
    mon.check_masters()
    mon.check_other_families()
    # ambient state: the answers must not depend on process-wide settings an embedding application may have changed - here
    # the thread's decimal context (precision, rounding, traps).  The monitor itself uses floats and patterns only.
    import decimal
    for prec, rounding in ((3, decimal.ROUND_HALF_EVEN), (2, decimal.ROUND_UP), (1, decimal.ROUND_DOWN)):
        with decimal.localcontext() as dctx:
            dctx.prec = prec
            dctx.rounding = rounding
            dctx.traps[decimal.Inexact] = False
            mon.ambient = 'decimal context prec=%d %s' % (prec, rounding)
            for e in THROWS:
                for g in ('M', 'F'):
                    for ag in labels[:: (1 if prec == 3 else 5)]:
                        attach.call(mon.spec, e, g, ag)
                        ctx.count('eval.under-perturbed-decimal-context')
    mon.ambient = None
    # non-throw codes pass through - whatever the gender and age group are (they are not looked at for these)
    for c in ('100', '4x400', 'HJ', 'LJ', 'MAR', 'DEC', '110H', '3000SC', 'XC', 'sp', 'Dt', 'SP4K', 'WT15.88K', '', 'nonsense'):
        for g in ('M', 'F', 'X', '', 'm', 'f', 'W', 'Male', 'female', 'B', 'G', None, 0):
            for ag in ('SEN', 'U13', 'V40', '', 'weird', None):
                attach.call(mon.spec, c, g, ag)
                ctx.count('eval.pass-through-with-odd-gender-or-group')
    # throws with a gender that is neither M nor F: no tabulated weight, so a valid code or pass-through and no exception
    for e in THROWS:
        for g in ('X', '', 'm', 'f', 'W', 'Male', 'B'):
            for ag in ('SEN', 'U13', 'V40', 'V75', ''):
                attach.call(mon.spec, e, g, ag)
    # non-throw codes from the pattern
    cm = sys.modules['athlib.codes']
    n = 5000 if ctx.tier == 'quick' else 100000
    g = relang.Gen(cm.PAT_EVENT_CODE, seed=ctx.seed, ascii_only=True)
    for c in g.many(n):
        if c in THROWS:
            continue
        attach.call(mon.spec, c, rnd.choice('MF'), rnd.choice(labels))
    # table keys
    for table, k in table_keys(ctx):
        ctx.count('eval.table-key')
        if not isinstance(k, str) or mon.check(k) is None:
            ctx.violation('table-key-not-accepted:%s:%s' % (table.split('-')[0], k), {'table': table, 'key': k}, 'accepted by check_event_code', 'rejected')
        else:
            ctx.nt(('key', table, k))
            ctx.count('judged.table-key')
    ctx.require('judged.specific-with-weight', 100)
    ctx.require('judged.table-key', 300)
    ctx.require('judged.pass-through', 1000)


def shards(tier, seed):
    return [{'i': 0}, {'i': 1, 'prelude': 'respelled-first'}]


def replay(ctx, cases):
    core.import_athlib()
    mon = Monitor(ctx)
    for c in cases:
        if 'key' in c:
            print('  check_event_code(%r) -> %r' % (c['key'], mon.check(c['key'])))
        else:
            print('  get_implement_weight%r -> %r ; get_specific_event_code -> %r' % (
                (c['e'], c['g'], c['ag']), attach.call(mon.weight, c['e'], c['g'], c['ag']), attach.call(mon.spec, c['e'], c['g'], c['ag'])))
    mon.check_masters()
