"""C15 - WMA interpolation between distances is order-preserving.

Monitors: recorders on athlib.wma_age_factor / wma_world_best.  Every observed call for a
non-tabulated running distance is judged against the envelope of the nearest shorter and
nearest longer tabulated running rows (all rows tying for nearest contribute), and fed to a
monotonicity monitor for the open best along the distance axis.
"""
import json
import os
import decimal
import fractions
import random
import sys

from .. import attach, core
from ..mono import Mono

META = {
    'rule': ('whole-metre distances as bare numbers and road spellings N[.dd]K / N[.dd]M through the real wma_age_factor / '
             'wma_world_best x gender x table year x ages; envelope rows are found in the table\'s own distance column among the '
             'running rows. distinct_nontrivial = distinct (year, gender, age or best, distance) queries strictly between two '
             'tabulated distances whose bracketing rows have different values (so the envelope really constrains the answer)'),
    'assumptions': ['all rows tying for nearest shorter / longer (track and road rows of one distance) contribute to the envelope',
                    'envelope tolerance 1e-12 absolute, open-best monotonicity tolerance 1e-9 relative'],
}


class Monitor(object):
    def __init__(self, ctx):
        self.ctx = ctx
        import athlib
        self.a = athlib
        attach.monitor(athlib, 'wma_age_factor', self.on_factor, rebind_aliases=False)
        attach.monitor(athlib, 'wma_world_best', self.on_best, rebind_aliases=False)
        self.get_distance = attach.original(athlib.get_distance)
        self.tables = {}
        wdir = os.path.join(core.REPO, 'athlib', 'wma')
        for y in (2015, 2023):
            with open(os.path.join(wdir, 'wma-data-%d.json' % y), encoding='utf-8') as f:
                self.tables[y] = json.load(f)
        self.running = {}
        for y in (2015, 2023):
            for g in 'mf':
                t = self.tables[y][g]
                i50 = [i for i, r in enumerate(t) if r[0] == '50'][0]
                self.running[(y, g)] = [r for r in t[i50:] if r[1] and r[1] > 0]
        self.mono = Mono(self.on_break)
        self.cache = {}
        self.rows_fed = set()

    def year_of(self, kwargs, args, pos):
        y = kwargs.get('year', args[pos] if len(args) > pos else None)
        return 2015 if y == 2015 else 2023

    def bracket(self, y, g, d_km):
        """nearest shorter / longer tabulated running rows.  A row's distance is known twice: the table's own distance
        column and the distance its event code denotes (get_distance: '50M' is 50 miles whatever the column says).  Both
        readings are bracketed and the envelopes united, so the 1609 vs 1609.344 m mile is not imposed either way, while a
        corrupted distance cell still leaves the true neighbours in the envelope."""
        rows = self.running[(y, g)]
        S, L = [], []
        for dist in (lambda r: r[1], lambda r: self.code_km(r)):
            below = [r for r in rows if dist(r) <= d_km]
            above = [r for r in rows if dist(r) >= d_km]
            if below:
                m = max(dist(x) for x in below)
                S += [r for r in below if dist(r) == m and r not in S]
            if above:
                m = min(dist(x) for x in above)
                L += [r for r in above if dist(r) == m and r not in L]
        return S, L

    def code_km(self, r):
        k = ('ckm', r[0])
        if k not in self.cache:
            try:
                d = self.get_distance(r[0])
            except Exception:
                d = None
            self.cache[k] = 0.001 * d if d else r[1]
        return self.cache[k]

    def row_factor(self, y, g, age, code):
        k = (y, g, age, code)
        if k not in self.cache:
            o = attach.call(attach.original(self.a.wma_age_factor), g, age, code, year=y)
            self.cache[k] = o.value if o.ok else None
        return self.cache[k]

    def query(self, y, g, event):
        """distance in km for a non-tabulated running code, else None"""
        if not isinstance(event, str):
            return None
        ev = event.upper()
        if any(r[0] == ev for r in self.tables[y][g]):
            return None
        import re
        m = re.match(r'^(?:(\d+)|(\d{1,3}(?:\.\d\d?)?)([KkM]))$', event)
        if not m:
            return None
        # the distance the spelling denotes, parsed here (not with the library's get_distance): whole metres for a bare
        # number, kilometres x 1000, miles x 1609 (the library's own round figure; rows sit at 1609.344)
        from decimal import Decimal
        if m.group(1):
            return int(m.group(1))
        q = Decimal(m.group(2))
        return int(q * 1000) if m.group(3) in 'Kk' else int(q * 1609)

    def where(self, S, L, d_m):
        if not S:
            return 'below-shortest-row'
        if not L:
            return 'beyond-longest-row'
        return None

    def on_factor(self, args, kwargs, out):
        ctx = self.ctx
        ctx.count('eval.factor')
        if len(args) < 3:
            return
        gender, age, event = args[:3]
        y = self.year_of(kwargs, args, 3)
        g = gender[0].lower() if isinstance(gender, str) and gender else None
        if g not in ('m', 'f') or isinstance(age, bool) or not isinstance(age, (int, float, decimal.Decimal, fractions.Fraction)):
            return
        d_m = self.query(y, g, event)
        if d_m is None:
            ctx.count('unjudged.factor-tabulated-or-not-a-distance')
            return
        S, L = self.bracket(y, g, 0.001 * d_m)
        case = {'fn': 'wma_age_factor', 'gender': gender, 'age': age, 'event': event, 'year': y, 'metres': d_m}
        end = self.where(S, L, d_m)
        if not out.ok:
            ctx.violation('factor:raise:%s:%s' % (type(out.value).__name__, end or 'inside-table'), case, 'a factor', repr(out))
            return
        f = out.value
        if isinstance(f, bool) or not isinstance(f, (int, float)) or not f > 0 or f != f or f in (float('inf'),):
            ctx.violation('factor:not-finite-positive:%s' % (end or 'inside-table'), case, 'finite positive', repr(f))
            return
        if end:
            # "use the nearest end of the table": the factor of the end row(s) for the same gender and age
            rows = self.running[(y, g)]
            edge = min(r[1] for r in rows) if end == 'below-shortest-row' else max(r[1] for r in rows)
            vals = [self.row_factor(y, g, age, r[0]) for r in rows if r[1] == edge]
            vals = [v for v in vals if v is not None]
            ctx.count('judged.factor-off-the-end')
            if vals and not (min(vals) - 1e-12 <= f <= max(vals) + 1e-12):
                ctx.violation('factor:off-the-end-not-the-end-row:%s' % end, case, vals, f)
                return
            ctx.nt(('fe', y, g, age, d_m))
            return
        vals = [self.row_factor(y, g, age, r[0]) for r in S + L]
        if any(v is None for v in vals):
            ctx.count('unjudged.factor-bracketing-row-undefined')
            return
        lo, hi = min(vals), max(vals)
        ctx.count('judged.factor-envelope')
        if f < lo - 1e-12 or f > hi + 1e-12:
            key = 'factor:outside-envelope'
            miles = [r for r in S + L if abs(r[1] / 1.609344 - round(r[1] / 1.609344)) < 1e-9 and r[1] > 1.6]
            if any(1609 * round(r[1] / 1.609344) <= d_m <= r[1] * 1000 for r in miles):
                key += ':query-between-1609n-and-1609.344n-metres'
            ctx.violation(key, dict(case, rows=[r[0] for r in S + L]), [lo, hi], f)
            return
        if hi > lo and S[0][1] * 1000 < d_m < L[0][1] * 1000:
            if ctx.nt(('f', y, g, age, d_m)):
                ctx.count('judged.factor-strictly-between')
            ctx.sample('factor', dict(case, rows=[r[0] for r in S + L], envelope=[lo, hi], factor=f), 4)

    def on_best(self, args, kwargs, out):
        ctx = self.ctx
        ctx.count('eval.best')
        if len(args) < 2:
            return
        gender, event = args[:2]
        y = self.year_of(kwargs, args, 2)
        g = gender[0].lower() if isinstance(gender, str) and gender else None
        if g not in ('m', 'f'):
            return
        d_m = self.query(y, g, event)
        if d_m is None:
            ctx.count('unjudged.best-tabulated-or-not-a-distance')
            return
        S, L = self.bracket(y, g, 0.001 * d_m)
        case = {'fn': 'wma_world_best', 'gender': gender, 'event': event, 'year': y, 'metres': d_m}
        end = self.where(S, L, d_m)
        if not out.ok:
            ctx.violation('best:raise:%s:%s' % (type(out.value).__name__, end or 'inside-table'), case, 'a time', repr(out))
            return
        b = out.value
        if isinstance(b, bool) or not isinstance(b, (int, float)) or not b > 0 or b in (float('inf'),):
            ctx.violation('best:not-finite-positive:%s' % (end or 'inside-table'), case, 'finite positive', repr(b))
            return
        self.mono_case = case
        if (y, g) not in self.rows_fed:
            self.rows_fed.add((y, g))
            for r in self.running[(y, g)]:
                self.mono.add((y, g), self.code_km(r) * 1000.0, r[2])
        self.mono.add((y, g), d_m, b)
        if end:
            rows = self.running[(y, g)]
            ctx.count('judged.best-off-the-end')
            if end == 'below-shortest-row':
                lim = min(r[2] for r in rows if r[1] == min(x[1] for x in rows))
                if b > lim * (1 + 1e-9):
                    ctx.violation('best:below-shortest-row-slower-than-the-end-row', case, '<= %s' % lim, b)
            else:
                lim = max(r[2] for r in rows if r[1] == max(x[1] for x in rows))
                if b < lim * (1 - 1e-9):
                    ctx.violation('best:beyond-longest-row-faster-than-the-end-row', case, '>= %s' % lim, b)
            return
        vals = [r[2] for r in S + L]
        lo, hi = min(vals), max(vals)
        ctx.count('judged.best-envelope')
        if b < lo - 1e-9 * lo or b > hi + 1e-9 * hi:
            ctx.violation('best:outside-envelope:%s' % '/'.join(sorted(set(r[0] for r in S + L))) if len(S + L) <= 4 else 'best:outside-envelope',
                          dict(case, rows=[r[0] for r in S + L]), [lo, hi], b)
            return
        if S[0][1] * 1000 < d_m < L[0][1] * 1000:
            if ctx.nt(('b', y, g, d_m)):
                ctx.count('judged.best-strictly-between')
            ctx.sample('best', dict(case, rows=[r[0] for r in S + L], envelope=[lo, hi], best=b), 4)

    def on_break(self, key, lo, hi):
        # lo: shorter distance with the larger best
        if lo[1] - hi[1] <= 1e-9 * lo[1]:
            return
        if abs(hi[0] - lo[0]) <= 0.0005 * hi[0]:
            return          # within the 1609 / 1609.344 m-per-mile ambiguity of a tabulated row's position
        y, g = key
        S, L = self.bracket(y, g, 0.001 * hi[0])
        self.ctx.violation('best:decreases-with-distance:%s' % (self.where(S, L, hi[0]) or 'inside-table'),
                           {'year': y, 'g': g, 'shorter_m': lo[0], 'longer_m': hi[0]}, 'best increases with distance', [lo[1], hi[1]])


def distances(mon, y, g, tier, rnd, part, nparts):
    s = set()
    rows = mon.running[(y, g)]
    tab = sorted(set(int(round(r[1] * 1000)) for r in rows))
    gd = []
    for r in rows:
        try:
            d = mon.get_distance(r[0])
            if d:
                gd.append(d)
        except Exception:
            pass
    if tier == 'thorough':
        s.update(range(20 + part, 400001, nparts))
    else:
        s.update(range(20 + part, 30001, nparts))
        s.update(range(30001 + part * 37, 400001, 37 * nparts))
    if part == 0:
        for c in tab + gd:
            s.update(range(max(20, c - 5), c + 6))
        s.update([20, 21, 49, 50, 51, 199999, 200000, 200001, 250000, 399999, 400000])
    return sorted(s)


def road_codes(tier, rnd, part, nparts):
    out = []
    for n in range(1 + part, 401, nparts):
        for suf in ('K', 'k', 'M'):
            if suf == 'M' and n > 248:
                continue
            out.append('%d%s' % (n, suf))
            for frac in (['.5', '.25', '.01', '.99', '.0'] if tier == 'quick' else ['.%02d' % i for i in range(0, 100, 3)] + ['.5', '.1', '.9']):
                out.append('%d%s%s' % (n, frac, suf))
    return out


def own_km(code):
    """the distance an event code denotes, by a parser of its own (whole metres, N[.d]K, N[.d]M miles, the named ones)"""
    import re
    c = code.upper()
    named = {'MAR': 42.195, 'HM': 21.0975, 'MILE': 1.609344}
    if c in named:
        return named[c]
    m = re.match(r'^(\d+(?:\.\d+)?)(K|M|MT)?$', c)
    if not m:
        return None
    q = float(m.group(1))
    return q / 1000.0 if m.group(2) is None else q if m.group(2) == 'K' else q * 1.609344


def distance_column(mon, ctx):
    """invariant on the live tables: the distance column of a running row is the distance its code denotes (to 0.2 %: the
    mile is tabulated as 1.609 and as 1.609344), and the running rows are in order of distance - interpolation between rows
    reads that column, and the envelope oracle would follow a slipped digit (16.9344 for 10 miles) instead of reporting it"""
    import athlib
    for y, ag in ((2015, athlib.ag2015), (2023, athlib.ag2023)):
        data = ag.get_data()
        for g in 'mf':
            t = data[g]
            i50 = [i for i, r in enumerate(t) if r[0] == '50'][0]
            for r in t[i50:]:
                km = own_km(r[0])
                if km is None or not r[1]:
                    continue
                ctx.count('eval.distance-column-cell')
                if abs(r[1] - km) > 0.002 * km:
                    ctx.violation('table:distance-column-differs-from-the-code:%s-%s-%s' % (y, g, r[0]),
                                  {'year': y, 'g': g, 'row': r[0], 'column_km': r[1]}, '%.5f km' % km, r[1])
                else:
                    ctx.nt(('dcol', y, g, r[0]))


def run_shard(ctx, spec):
    core.import_athlib()
    mon = Monitor(ctx)
    a = mon.a
    rnd = random.Random(ctx.seed * 7 + spec['i'])
    if spec['i'] == 0:
        distance_column(mon, ctx)
    if spec['i'] % 4 == 1:
        # history: in this process the first lookups by distance are for other kinds of event (walks, hurdles, steeplechase, relays,
        # field events - tabulated or not, answered or refused; nothing is judged on them): whatever they leave on the shared
        # graders must not steer the running distances that follow
        for (y, g) in ((2023, 'm'), (2015, 'f'), (2023, 'f'), (2015, 'm')):
            for ev in ('7KW', '3500W', '12KW', '25KW', '1500W', '30KW', '350H', '150H', '2500SC', '1000SC', '4x300', 'HJ', 'WT', '3KW', '20KW', '10KW', 'PEN'):
                attach.call(attach.original(a.wma_world_best), g, ev, year=y)
                attach.call(attach.original(a.wma_age_factor), g, 50, ev, year=y)
                ctx.count('eval.other-kinds-of-event-looked-up-first')
    # whole ages and ages between two columns of the table (the grader interpolates between ages as well)
    ages = [35, 47.5, 50, 80, 100, 60.25] if ctx.tier == 'quick' else [20, 35, 35.5, 50, 52.25, 65, 80, 95, 99.5, 100, 100.5]
    # one process serves both genders and both table years, interleaved query by query: the graders are
    # shared objects, so a lookup cached or left behind by one (gender, year) must not leak into the next
    combos = [(2023, 'm'), (2023, 'f'), (2015, 'm'), (2015, 'f')]
    part, nparts = spec['i'], spec['n']
    ds = set()
    for (y, g) in combos:
        ds.update(distances(mon, y, g, ctx.tier, rnd, part, nparts))
    for d in sorted(ds):
        code = str(d)
        order = combos if d % 2 else combos[::-1]
        for (y, g) in order:
            attach.call(a.wma_world_best, g, code, year=y)
            for age in (ages if d % 3 == 0 or ctx.tier == 'thorough' or d < 3000 else ages[:1]):
                attach.call(a.wma_age_factor, g, age, code, year=y)
    for code in road_codes(ctx.tier, rnd, part, nparts):
        for (y, g) in combos:
            attach.call(a.wma_world_best, g, code, year=y)
            for age in ages[:2]:
                attach.call(a.wma_age_factor, g, age, code, year=y)
    # history: open bests asked back to back in random order (no tabulated lookup in between), and a factor asked right
    # after a best for an unrelated distance - whatever one lookup leaves on the shared grader must not steer the next
    pool = [str(d) for d in sorted(ds)[:: max(1, len(ds) // 1500)]] + road_codes('quick', rnd, part, nparts)[:600]
    for (y, g) in combos:
        order = list(pool)
        rnd.shuffle(order)
        prev = None
        for code in order:
            attach.call(a.wma_world_best, g, code, year=y)
            if prev is not None and rnd.random() < 0.3:
                attach.call(a.wma_age_factor, g, rnd.choice(ages), prev, year=y)
                attach.call(a.wma_world_best, g, code, year=y)
            prev = code
            ctx.count('eval.back-to-back-best')
    if part == 0:
        for age in (5, 10, 15, 20, 25, 30, 40, 58, 60, 70, 85, 90, 105, 110, 120):
            for code in ('20', '42', '49', '75', '150', '350', '2400', '7000', '11K', '5.3M', '30000', '150001', '250000', '400000', '260K', '249M'):
                for (y, g) in combos:
                    attach.call(a.wma_age_factor, g, age, code, year=y)
    if True:
        # every age between two columns of the table (k + 1/4, k + 3/4), and the same ages as Decimal / Fraction, at a few
        # distances off both ends of the table and inside it
        for k in range(5 + part, 112, nparts):
            for age in (k + 0.25, k + 0.75, decimal.Decimal(k) + decimal.Decimal('0.5'), fractions.Fraction(4 * k + 1, 4)):
                for code in ('20', '42', '52', '7K', '11K', '250K', '2400'):
                    for (y, g) in combos:
                        attach.call(a.wma_age_factor, g, age, code, year=y)
                        ctx.count('eval.fractional-age-sweep')
    ctx.require('judged.factor-envelope', 500)
    ctx.require('judged.best-envelope', 500)


def post_merge(merged, tier, seed):
    merged['required']['judged.factor-off-the-end'] = 20
    merged['required']['judged.best-off-the-end'] = 20


def shards(tier, seed):
    n = 16 if tier == 'quick' else 64
    return [{'i': i, 'n': n} for i in range(n)]


def replay(ctx, cases):
    core.import_athlib()
    mon = Monitor(ctx)
    a = mon.a
    for c in cases:
        if c.get('fn') == 'wma_age_factor':
            print('  %s -> %r' % (c, attach.call(a.wma_age_factor, c['gender'], c['age'], c['event'], year=c['year'])))
        elif c.get('fn') == 'wma_world_best':
            print('  %s -> %r' % (c, attach.call(a.wma_world_best, c['gender'], c['event'], year=c['year'])))
        else:
            for d in (c['shorter_m'], c['longer_m']):
                print('  best(%s %s %s m) -> %r' % (c['year'], c['g'], d, attach.call(a.wma_world_best, c['g'], str(d), year=c['year'])))
