"""C08 - high jump: replaying the log or the card, in any jumping order, rebuilds it.

Monitor (vf/hj.py): at reachable states of the real object the replay monitor performs three
independent re-executions of the real code - from_actions() of the object's own log (compared on
the full snapshot), from_matrix(to_matrix()) (compared on state, heights, cards, bests, places)
and re-orderings of the accepted trials that keep each athlete's own sequence within each bar
height (all interleavings when few, seeded + round-robin + athlete-by-athlete + reverse otherwise).
"""
import random

from .. import core, hj

META = {
    'rule': ('states reached by the bounded breadth-first explorer (full alphabet, so histories contain refused calls too) and by '
             'seeded random walks / random complete competitions with 2-4 athletes; at every k-th accepted call the three replay '
             'monitors run. distinct_nontrivial = distinct histories for which at least two different jumping orders were '
             're-executed and compared, counted by the monitor'),
    'assumptions': ['card round trip and re-orderings are compared on what the property names (state, heights, cards without pass '
                    'marks / trailing blanks, bests, places), not on ranked_jumpers order or internal flags',
                    'the card clause is skipped (counted as unspecified) for histories with a pass recorded inside a jump-off',
                    'interleavings across bar movements are not permuted'],
}


def run_shard(ctx, spec):
    core.import_athlib()
    mon = hj.Monitor(ctx, rules=False, final=False, replay=True, replay_every=spec.get('every', 5))
    rnd = random.Random(ctx.seed * 3571 + spec['i'])
    mon.rnd = random.Random(ctx.seed * 13 + spec['i'])
    ex = hj.Explorer(mon, rnd)
    hj.KW['on'] = bool(spec.get('kw'))
    if spec.get('kw'):
        ctx.count('eval.shards-with-start-list-details')
    if spec['w'] == 'bfs':
        ex.bfs(spec['nj'], spec['reg'], spec['jo'], part=spec['i'], nparts=spec['n'], split_depth=spec.get('split', 3),
               max_states=spec.get('max_states'))
    elif spec['w'] == 'walk':
        for k in range(spec['n']):
            ex.walk(rnd.choice([2, 2, 3, 3, 4, 5]), maxlen=rnd.choice([90, 90, 200]), max_reg=rnd.choice([4, 4, 8]))
    elif spec['w'] == 'jumpoff':
        # jump-offs of several rounds with knock-out and pass patterns, two to four tied leaders
        for k in range(spec['n']):
            ex.jumpoff_scenario(rnd.choice([2, 2, 3, 3, 4]), max_jo=rnd.choice([2, 3, 4]), passes=(k % 3 != 0), scripted=True)
    else:
        for k in range(spec['n']):
            if k % 3 == 2:
                ex.jumpoff_scenario(rnd.choice([2, 2, 3, 3, 4]), max_jo=rnd.choice([3, 4]), passes=(k % 2 == 1), scripted=(k % 4 == 1))
            else:
                ex.complete(rnd.choice([2, 3, 3, 4, 5, 6]), max_reg=rnd.choice([2, 3, 4, 7, 9]), max_jo=3)
    ctx.info['states'] = ex.states
    ctx.info['transitions'] = ex.transitions
    ctx.count('eval.states-expanded', ex.states)
    ctx.require('judged.log-replay', 100)
    ctx.require('judged.card-round-trip', 100)
    ctx.require('judged.reordered-state', 50)


def shards(tier, seed):
    if tier == 'quick':
        s = [{'w': 'bfs', 'nj': 2, 'reg': 2, 'jo': 1, 'i': i, 'n': 8, 'every': 6} for i in range(8)]
        s += [{'w': 'walk', 'n': 60, 'i': 40 + i, 'every': 3} for i in range(4)]
        s += [{'w': 'complete', 'n': 150, 'i': 60 + i, 'every': 2} for i in range(4)]
        s += [{'w': 'jumpoff', 'n': 200, 'i': 80 + i, 'every': 2} for i in range(4)]
        s += [{'w': 'complete', 'n': 150, 'i': 90, 'every': 2, 'kw': True}, {'w': 'walk', 'n': 60, 'i': 91, 'every': 3, 'kw': True},
              {'w': 'jumpoff', 'n': 150, 'i': 92, 'every': 2, 'kw': True}]
        return s
    s = [{'w': 'bfs', 'nj': 2, 'reg': 2, 'jo': 2, 'i': i, 'n': 48, 'split': 4, 'every': 4, 'max_states': 60000} for i in range(48)]
    s += [{'w': 'bfs', 'nj': 3, 'reg': 2, 'jo': 1, 'i': i, 'n': 32, 'split': 4, 'every': 10, 'max_states': 120000} for i in range(32)]
    s += [{'w': 'walk', 'n': 900, 'i': 400 + i, 'every': 2} for i in range(8)]
    s += [{'w': 'complete', 'n': 2500, 'i': 600 + i, 'every': 1} for i in range(8)]
    s += [{'w': 'jumpoff', 'n': 2500, 'i': 700 + i, 'every': 2} for i in range(8)]
    s += [{'w': ('complete', 'walk', 'jumpoff')[i % 3], 'n': 900, 'i': 800 + i, 'every': 2, 'kw': True} for i in range(6)]
    return s


def replay(ctx, cases):
    core.import_athlib()
    mon = hj.Monitor(ctx, rules=False, final=False, replay=True, replay_every=10 ** 9)
    from decimal import Decimal
    for c in cases:
        hj.KW['on'] = bool(c.get('jumper_kwargs'))
        hj.KW['bibs'] = []
        comp = mon.H()
        for m, a in c['history']:
            try:
                if m == 'read':
                    hj.READERS[a](comp)
                elif m == 'add_jumper':
                    hj.add(comp, a)
                elif m == 'set_bar_height':
                    comp.set_bar_height(Decimal(a))
                else:
                    getattr(comp, m)(a)
            except Exception as e:
                print('   %s(%s) raised %s' % (m, a, e))
        print('   state=%s cards=%s places=%s' % (comp.state, comp.to_matrix(['bib']), [(j.bib, j.place) for j in comp.jumpers]))
        mon.judge_replay(comp, mon.shadow(comp))
