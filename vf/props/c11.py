"""C11 - table-based junior scoring reproduces the published tables exactly.

Monitors: recorders on tyrving_score, qkids_score, sportshall_score and bulgarian score
(aliases in the athlib package rebound); every observed call whose mark lies on the event's
grid is judged against the exact oracle (oracles/junior.py).  Table monitors scan the live
tables for ordering and execute the public function at every tabulated threshold.
"""
import random
import re
import sys
from decimal import Decimal as D
from fractions import Fraction as F

from .. import attach, core
from ..oracles import junior as J

META = {
    'rule': ('every (system, table, gender, event, age) x marks on the event grid (all thresholds +-2 steps, windows below and '
             'beyond the table, seeded marks; the whole grid in thorough) x input forms (text, float, int when whole, m:ss.xx '
             'for times, tenths text for hand timing) through the real public functions; distinct_nontrivial = distinct '
             '(system, table key, age, mark, form) judged equal to the oracle with points strictly inside the clamps, plus '
             'distinct table rows checked for ordering and reachability'),
    'assumptions': ['the published table is the table embedded in the repository',
                    'Tyrving: a timed text with fewer than two decimals is hand-timed (its own convention)'],
}


def computed_floats(n):
    """the same 0.01-grid mark as a caller's arithmetic leaves it: n * 0.01, whole part + hundredths / 100 - doubles an ulp or two
    away from the nearest double of n / 100 ("independent of binary floating-point representation")"""
    base = n / 100
    out = []
    for name, v in (('float-product', n * 0.01), ('float-sum', n // 100 + (n % 100) / 100), ('float-sum-tenths', n // 10 / 10 + (n % 10) / 100)):
        if v != base and all(v != o[1] for o in out):
            out.append((name, v))
    return out


def forms_time(n):
    """documented input forms for a time of n hundredths"""
    s = '%d.%02d' % divmod(n, 100)
    out = [('float', n / 100), ('text', s)] + computed_floats(n)
    if n % 100 == 0:
        out.append(('int', n // 100))
    if n >= 6000:
        m, r = divmod(n, 6000)
        out.append(('m:ss.xx', '%d:%02d.%02d' % (m, r // 100, r % 100)))
    return out


def forms_len(n):
    s = '%d.%02d' % divmod(n, 100)
    out = [('float', n / 100), ('text', s)] + computed_floats(n)
    if n % 100 == 0:
        out.append(('int', n // 100))
    return out


def has_ws(s):
    return isinstance(s, str) and any(ch.isspace() for ch in s)


class Monitor(object):
    def __init__(self, ctx):
        self.ctx = ctx
        import athlib
        self.athlib = athlib
        self.tm = sys.modules['athlib.tyrving_score']
        self.qm = sys.modules['athlib.qkids_score']
        self.sm = sys.modules['athlib.sportshall_score']
        self.bm = sys.modules['athlib.bulgarian_score']
        self.u = sys.modules['athlib.utils']
        self.PAT_RUN = sys.modules['athlib.codes'].PAT_RUN
        attach.monitor(self.tm, 'tyrving_score', self.on_tyrving)
        attach.monitor(self.qm, 'qkids_score', self.on_qkids)
        attach.monitor(self.sm, 'sportshall_score', self.on_sportshall)
        attach.monitor(self.bm, 'score', self.on_bulgarian)
        assert athlib.tyrving_score is self.tm.tyrving_score and athlib.bulgarian_score is self.bm.score
        self.SH = J.Sportshall(self.sm.RAWDATA)
        self.form = None
        self.on_points = None          # optional tap for C05

    # ---------------------------------------------------------------- helpers
    def decorations(self, ev):
        """other spellings of a table key that the library's own normaliser maps onto it: blanks and a final newline around
        and inside the code, other letter case"""
        N = attach.original(self.u.normalize_event_code)
        try:
            base = N(ev)
        except Exception:
            return []
        out = []
        for sp in (' ' + ev, ev + ' ', '\t' + ev, ev + '\n', ' ' + ev.lower() + ' ', re.sub(r'(\d)([A-Za-z])', r'\1 \2', ev, 1),
                   ev.lower(), ev.capitalize()):
            try:
                if sp != ev and sp not in out and N(sp) == base:
                    out.append(sp)
            except Exception:
                pass
        return out

    @staticmethod
    def grid_value(perf, allow_hms=True):
        """exact Fraction of a mark given in a documented form, or None"""
        if isinstance(perf, bool):
            return None
        if isinstance(perf, int):
            return F(perf)
        if isinstance(perf, float):
            if perf != perf or perf in (float('inf'), float('-inf')):
                return None
            n = round(perf * 100)
            return F(n, 100) if abs(perf * 100 - n) < 1e-6 else None
        if isinstance(perf, str):
            m = re.match(r'^(?:(\d+):)?(?:(\d+):)?(\d+(?:\.\d+)?)$', perf)
            if not m:
                return None
            if (m.group(1) or m.group(2)) and not allow_hms:
                return None
            v = F(D(m.group(3)))
            parts = [g for g in (m.group(1), m.group(2)) if g is not None]
            tot = F(0)
            for p in parts:
                tot = tot * 60 + int(p)
            return tot * 60 + v if parts else v
        return None

    def good(self, system, key, points, lo, hi):
        if lo < points < hi:
            if self.ctx.nt((system, key)):
                self.ctx.count('judged.%s-inside-clamps' % system)

    # ---------------------------------------------------------------- Tyrving
    def on_tyrving(self, args, kwargs, out):
        ctx = self.ctx
        ctx.count('eval.tyrving')
        if len(args) < 4:
            return
        g, age, ev, perf = args[:4]
        try:
            gn = self.u.normalize_gender(g)
            evn = attach.original(self.u.normalize_event_code)(ev)
            age_i = int(age)
        except Exception:
            ctx.count('unjudged.tyrving-key')
            return
        row = self.tm._tyrvingTables.get(gn, {}).get(evn)
        if not row:
            ctx.count('unjudged.tyrving-no-table')
            return
        kind, targs = row
        v = self.grid_value(perf, allow_hms=(kind == 'race'))
        if v is None:
            ctx.count('unjudged.tyrving-mark-form')
            return
        manual = kind == 'race' and isinstance(perf, str) and (('.' not in perf) or len(perf) - perf.rfind('.') < 3)
        want = J.tyrving(kind, targs, age_i, v, manual)
        case = {'sys': 'tyrving', 'g': g, 'age': age, 'ev': ev, 'perf': perf, 'ptype': type(perf).__name__}
        if self.on_points and want is not None:
            self.on_points('tyrving', (gn, evn, age_i, manual), v, out, kind == 'race', case)
        if want is None:
            ctx.count('unspecified.tyrving-age-not-tabulated')
            return
        if not out.ok and has_ws(ev):
            ctx.count('unspecified.blank-decorated-code-refused')
            return
        if not out.ok:
            ctx.violation('tyrving:raise:%s:%s' % (type(out.value).__name__, kind), case, want, repr(out))
            return
        if type(out.value) is not int or out.value != want:
            ctx.violation('tyrving:points:%s:%s' % (kind, 'hand-timed' if manual else 'plain'), case, want, out.value)
            return
        ctx.count('judged.tyrving')
        self.good('tyrving', (gn, evn, age_i, v, type(perf).__name__, manual), want, 0, 10 ** 9)
        ctx.sample('tyrving-%s%s' % (kind, '-hand' if manual else ''), dict(case, points=want), 2)

    # ---------------------------------------------------------------- QuadKids
    def on_qkids(self, args, kwargs, out):
        ctx = self.ctx
        ctx.count('eval.qkids')
        if len(args) < 3:
            return
        ct, ev, perf = args[:3]
        try:
            ctn = ct.replace(' ', '').upper()
            ctn = self.qm._compTypeMap.get(ctn, ctn)
            evn = attach.original(self.u.normalize_event_code)(ev)
        except Exception:
            ctx.count('unjudged.qkids-key')
            return
        row = self.qm._qkidsTables.get(ctn, {}).get(evn)
        if not row:
            ctx.count('unjudged.qkids-no-table')
            return
        timed = self.PAT_RUN.match(evn) is not None
        v = self.grid_value(perf, allow_hms=timed)
        if v is None:
            ctx.count('unjudged.qkids-mark-form')
            return
        want = J.qkids(row, v, timed)
        case = {'sys': 'qkids', 'ct': ct, 'ev': ev, 'perf': perf, 'ptype': type(perf).__name__}
        if self.on_points:
            self.on_points('qkids', (ctn, evn), v, out, timed, case)
        if not out.ok and has_ws(ev):
            ctx.count('unspecified.blank-decorated-code-refused')
            return
        if not out.ok:
            ctx.violation('qkids:raise:%s' % type(out.value).__name__, case, want, repr(out))
            return
        if type(out.value) is not int or out.value != want:
            ctx.violation('qkids:points', case, want, out.value)
            return
        ctx.count('judged.qkids')
        self.good('qkids', (ctn, evn, v, type(perf).__name__), want, 10, 100)
        ctx.sample('qkids', dict(case, points=want), 3)

    # ---------------------------------------------------------------- Sportshall
    def sh_mech(self, code, x, e):
        maxp, maxv = e['thr'][-1]
        beyond = (x > maxv) if e['high'] else (x < maxv)
        if beyond:
            if e['inc'] is None and e['inctext'] not in ('n/a',):
                return 'beyond-table:increment-text-not-parsed(%s)' % e['inctext']
            return 'beyond-table:float-division-of-excess-by-increment'
        if code == 'SHJ':
            return 'SHJ-centimetres-read-as-0.<text>'
        return 'inside-table'

    def on_sportshall(self, args, kwargs, out):
        ctx = self.ctx
        ctx.count('eval.sportshall')
        if len(args) < 2:
            return
        code, perf = args[:2]
        if not isinstance(code, str) or code.strip().upper() not in self.SH.events:
            ctx.count('unjudged.sportshall-no-table')
            return
        spelled = code
        code = code.strip().upper()
        e = self.SH.events[code]
        if isinstance(perf, str) and re.match(r'^\d+(\.\d+)?$', perf):
            x = D(perf)
        elif isinstance(perf, int) and not isinstance(perf, bool):
            x = D(perf)
        elif isinstance(perf, float):
            n = round(perf * 100)
            if abs(perf * 100 - n) > 1e-6:
                ctx.count('unjudged.sportshall-mark-form')
                return
            x = D(n) / 100
        else:
            ctx.count('unjudged.sportshall-mark-form')
            return
        want = self.SH.score(code, x)
        case = {'sys': 'sportshall', 'ev': code, 'perf': perf, 'ptype': type(perf).__name__}
        if self.on_points:
            self.on_points('sportshall', (code,), F(x), out, not e['high'], case)
        if has_ws(spelled):
            case['ev'] = spelled
            if not out.ok or out.value is None:
                ctx.count('unspecified.blank-decorated-code-refused')
                return
        if not out.ok:
            ctx.violation('sportshall:raise:%s' % type(out.value).__name__, case, want, repr(out))
            return
        if type(out.value) is not int or out.value != want:
            key = 'sportshall:points:%s' % self.sh_mech(code, x, e)
            if isinstance(perf, float) and D(perf) != x:
                twin = attach.call(attach.original(self.sm.sportshall_score), code, str(x))
                if twin.ok and twin.value == want:
                    key = 'sportshall:points:float-mark-converted-with-Decimal(float)'
            ctx.violation(key, case, want, out.value)
            return
        ctx.count('judged.sportshall')
        self.good('sportshall', (code, x, type(perf).__name__), want, 0, 10 ** 9)
        ctx.sample('sportshall-%s' % code, dict(case, points=want), 1)

    # ---------------------------------------------------------------- Bulgarian
    def on_bulgarian(self, args, kwargs, out):
        ctx = self.ctx
        ctx.count('eval.bulgarian')
        if len(args) < 4:
            return
        ag, g, ev, perf = args[:4]
        key = '%s%s%s' % (ag, g, ev)
        table = self.bm.scores.get(key)
        if table is None or ev not in J.BG_FIELD + J.BG_TIMED:
            ctx.count('unjudged.bulgarian-no-table')
            return
        timed = ev in J.BG_TIMED
        v = self.grid_value(perf, allow_hms=timed)
        if v is None or (v * 100).denominator != 1:
            ctx.count('unjudged.bulgarian-mark-form')
            return
        n = int(v * 100)
        case = {'sys': 'bulgarian', 'ag': ag, 'g': g, 'ev': ev, 'perf': perf, 'ptype': type(perf).__name__}
        if self.on_points:
            self.on_points('bulgarian', (key,), v, out, timed, case)
        try:
            want = J.bulgarian(table, ev, n)
        except KeyError:
            ctx.violation('bulgarian:table-hole:%s' % key, case, 'a row for %d' % n, 'missing')
            return
        if not out.ok:
            ctx.violation('bulgarian:raise:%s' % type(out.value).__name__, case, want, repr(out))
            return
        if type(out.value) is not int or out.value != want:
            k = 'bulgarian:points'
            fv = perf if isinstance(perf, float) else (float(perf) if isinstance(perf, str) and ':' not in perf else None)
            if fv is not None and int(100 * fv) != n:
                k += ':int(100*mark)-truncates-below-the-decimal-mark'
            ctx.violation(k, case, want, out.value)
            return
        ctx.count('judged.bulgarian')
        self.good('bulgarian', (key, n, type(perf).__name__), want, 0, 150)
        ctx.sample('bulgarian', dict(case, points=want), 3)

    # ---------------------------------------------------------------- table monitors
    def scan_tables(self):
        ctx = self.ctx
        norm = attach.original(self.u.normalize_event_code)
        check = self.u.check_event_code
        # Tyrving: base performances improve with age; keys reachable under their normalised code
        for g, T in self.tm._tyrvingTables.items():
            for ev, (kind, targs) in T.items():
                ctx.count('eval.table-row')
                case = {'sys': 'tyrving', 'g': g, 'ev': ev}
                ok = check(ev) is not None
                n = attach.call(norm, ev) if ok else None
                if not ok or not n.ok or n.value != ev:
                    ctx.violation('table:tyrving-key-not-reachable-under-normalised-code:%s' % ev, case, ev, repr(n))
                    continue
                ages = J.tyr_ages(kind, targs)
                b = J.tyr_base_perf(kind, targs, ages[0])
                o = attach.call(self.tm.tyrving_score, g, ages[0], ev, float(b) if kind != 'race' else '%.2f' % b)
                if not o.ok or o.value != 1000:
                    ctx.violation('table:tyrving-base-performance-does-not-score-1000', dict(case, age=ages[0], base=b), 1000, repr(o))
                else:
                    ctx.nt(('trow', g, ev))
                if kind in ('throw', 'pv'):
                    mults, yvs = targs
                    for age in ages:
                        l0, l1, l2 = (J.tyr_base(age, yv) for yv in yvs)
                        # the three pieces must join: continuity at level1 gives level2 = 1000 + (l1-l0)*100*m1
                        join = 1000 + 100 * (J.fr(l1) - J.fr(l0)) * J.fr(mults[1])
                        # ordering at the seam: the lowest piece must not start above the middle one (a dip);
                        # the table stores the seam value as an integer, so a gap below 1 point is legitimate
                        ctx.count('eval.table-piece-join')
                        if J.fr(l2) > join:
                            ctx.violation('table:tyrving-seam-dips', dict(case, age=age), '<= ' + str(join), l2)
        # QuadKids rows: increment positive, 10-point and 100-point marks consistent with the direction
        for ct, T in self.qm._qkidsTables.items():
            for ev, row in T.items():
                ctx.count('eval.table-row')
                timed = self.PAT_RUN.match(ev) is not None
                case = {'sys': 'qkids', 'ct': ct, 'ev': ev, 'row': row}
                if check(ev) is None or norm(ev) != ev:
                    ctx.violation('table:qkids-key-not-reachable:%s' % ev, case, ev, None)
                    continue
                if not row[0] > 0 or (row[2] < row[1]) != timed:
                    ctx.violation('table:qkids-row-direction', case, 'p100 better than p10', row)
                    continue
                # (the third column is informative only: QKSTA/SLJ lists 3.0 m, which the linear rule scores 85)
                o10 = attach.call(self.qm.qkids_score, ct, ev, row[1])
                if not (o10.ok and o10.value == 10):
                    ctx.violation('table:qkids-row-10-point-mark-does-not-score-10', case, 10, repr(o10))
                else:
                    ctx.nt(('qrow', ct, ev))
        # Sportshall: thresholds ordered; every tabulated threshold scores its own points
        for code, e in self.SH.events.items():
            thr = e['thr']
            for i in range(len(thr)):
                ctx.count('eval.table-row')
                p, v = thr[i]
                case = {'sys': 'sportshall', 'ev': code, 'points': p, 'threshold': str(v)}
                if i:
                    pp, pv = thr[i - 1]
                    if (v < pv) if e['high'] else (v > pv):
                        ctx.violation('table:sportshall-thresholds-out-of-order:%s' % code, case, 'better mark for more points', [str(pv), str(v)])
                        continue
                same = [q for q, w in thr if w == v]
                o = attach.call(self.sm.sportshall_score, code, str(v))
                if not o.ok or o.value != max(same):
                    k = 'table:sportshall-threshold-does-not-score-its-points'
                    if code == 'SHJ':
                        k += ':SHJ-centimetres-read-as-0.<text>'
                    ctx.violation(k, case, max(same), repr(o))
                else:
                    ctx.nt(('srow', code, p))
        # Bulgarian: per-centi rows weakly ordered, no holes between min and max
        for key, T in self.bm.scores.items():
            m = re.match(r'^(U\d+)([MFX])(.+)$', key)
            ev = m.group(3)
            timed = ev in J.BG_TIMED
            rows = sorted(k for k in T if isinstance(k, int))
            lo, hi = min(T['min'], T['max']), max(T['min'], T['max'])
            holes = [n for n in range(lo, hi + 1) if n not in T]
            ctx.count('eval.table-row', len(rows))
            if holes:
                ctx.violation('table:bulgarian-hole:%s' % key, {'sys': 'bulgarian', 'key': key, 'missing': holes[:10]}, 'every centi between min and max', len(holes))
            prev = None
            bad = []
            for n in (rows if not timed else rows[::-1]):       # from worst to best mark
                if prev is not None and T[n] < prev[1]:
                    bad.append((prev[0], prev[1], n, T[n]))
                prev = (n, T[n])
            if bad:
                ctx.violation('table:bulgarian-rows-out-of-order:%s' % key, {'sys': 'bulgarian', 'key': key, 'dips': bad[:8]},
                              'better mark never fewer points', '%d dips' % len(bad))
            else:
                ctx.nt(('brow', key))


# ---------------------------------------------------------------- workloads
def tyrving_jobs(mon):
    jobs = []
    for g, T in sorted(mon.tm._tyrvingTables.items()):
        for ev, (kind, targs) in sorted(T.items()):
            for age in J.tyr_ages(kind, targs):
                jobs.append(('tyrving', g, ev, age))
    return jobs


def run_tyrving(mon, ctx, job, rnd):
    _, g, ev, age = job
    kind, targs = mon.tm._tyrvingTables[g][ev]
    f = mon.tm.tyrving_score
    b = J.tyr_base_perf(kind, targs, age)
    bn = int(round(b * 100))
    marks = set()
    if ctx.tier == 'thorough':
        lo, hi = int(bn * 0.3), int(bn * 2.0)
        step = max(1, (hi - lo) // 40000)
        marks.update(range(lo, hi + 1, step))
    else:
        marks.update(rnd.randrange(int(bn * 0.3), int(bn * 2.0) + 1) for _ in range(60))
    for c in [bn] + ([int(round(J.tyr_base(age, yv) * 100)) for yv in targs[1][:2]] if kind in ('throw', 'pv') else []):
        marks.update(range(max(0, c - 3), c + 4))
    # zero-point neighbourhood
    if kind == 'race':
        dist, mult = targs[0], targs[1]
        z = bn + int(1000 / (mult * (100 if dist <= 500 else 10)) * 100)
        marks.update(range(max(0, z - 3), z + 4))
    raw = attach.original(f)
    for ni, n in enumerate(sorted(marks)):
        forms = forms_time(n) if kind == 'race' else forms_len(n)
        if ni % 5 == 2:
            # history: refused calls (age outside the table with a hand-timed / electronic mark, an unreadable mark such as DNF,
            # a missing age) come right before good ones for the same table; the caller catches the error and carries on
            hand = '%d.%d' % (n // 100, (n % 100) // 10)
            for bad in ((g, age + 40, ev, hand), (g, 3, ev, '%d' % (n // 100)), (g, age, ev, 'DNF'), (g, age + 40, ev, n / 100),
                        (g, age, ev, hand + '.'), (g, None, ev, hand))[ni % 3::3]:
                attach.call(raw, *bad)
                ctx.count('eval.refused-call-before-a-good-one')
        for name, p in forms:
            attach.call(f, g, age, ev, p)
        if kind == 'race' and n % 10 == 0:
            attach.call(f, g, age, ev, '%d.%d' % (n // 100, (n % 100) // 10))         # hand-timed tenths
            if n % 100 == 0:
                attach.call(f, g, age, ev, '%d' % (n // 100))
            if n >= 6000:
                m, r = divmod(n, 6000)
                attach.call(f, g, age, ev, '%d:%02d.%d' % (m, r // 100, (r % 100) // 10))
            # a number and an electronic text straight after the hand-timed texts (whatever a hand-timed call sets must not
            # be there for the next, differently typed mark of the same table)
            attach.call(f, g, age, ev, n / 100)
            attach.call(f, g, age, ev, (n - 1) / 100)
            if n % 100 == 0:
                attach.call(f, g, age, ev, n // 100)
            attach.call(f, g, age, ev, '%d.%02d' % (n // 100, n % 100))
    # spellings of the key
    attach.call(f, g.lower(), str(age), ev.lower() if mon.u.check_event_code(ev.lower()) else ev, bn / 100)
    some = sorted(marks)[:: max(1, len(marks) // 12)]
    for sp in mon.decorations(ev):
        for n in some:
            for name, p in (forms_time(n) if kind == 'race' else forms_len(n))[:2]:
                attach.call(f, g, age, sp, p)
                ctx.count('eval.decorated-spelling')
            if kind == 'race':
                # a hand-timed text under a decorated spelling of the key: hand timing is a matter of the mark, not of how the
                # event code was typed
                t = n - n % 10
                attach.call(f, g, age, sp, '%d.%d' % (t // 100, (t % 100) // 10))
                ctx.count('eval.decorated-spelling-hand-timed')


def qkids_jobs(mon):
    return [('qkids', ct, ev) for ct, T in sorted(mon.qm._qkidsTables.items()) for ev in sorted(T)]


def run_qkids(mon, ctx, job, rnd):
    _, ct, ev = job
    inc, p10, p100 = mon.qm._qkidsTables[ct][ev]
    f = mon.qm.qkids_score
    timed = mon.PAT_RUN.match(ev) is not None
    lo = max(0, int(min(p10, p100) * 100 * 0.5) - 100)
    hi = int(max(p10, p100) * 100 * 1.5) + 200
    if ctx.tier == 'thorough' or hi - lo < 3000:
        marks = range(lo, hi + 1)
    else:
        s = set(rnd.randrange(lo, hi + 1) for _ in range(1200))
        for c in (int(p10 * 100), int(p100 * 100)):
            s.update(range(max(0, c - 40), c + 41))
        marks = sorted(s)
    names = [k for k, v in mon.qm._compTypeMap.items() if v == ct]
    for n in marks:
        for name, p in (forms_time(n) if timed else forms_len(n)):
            attach.call(f, ct, ev, p)
    some = list(marks)[:: max(1, len(marks) // 25)]
    for sp in mon.decorations(ev):
        for n in some:
            for name, p in (forms_time(n) if timed else forms_len(n))[:2]:
                attach.call(f, ct, sp, p)
                ctx.count('eval.decorated-spelling')
    for nm in names:
        attach.call(f, nm.title(), ev, p10)
        attach.call(f, ' '.join(nm.lower()), ev.lower() if mon.u.check_event_code(ev.lower()) else ev, p100)


def sportshall_jobs(mon):
    return [('sportshall', code) for code in sorted(mon.SH.events)]


def run_sportshall(mon, ctx, job, rnd):
    _, code = job
    e = mon.SH.events[code]
    f = mon.sm.sportshall_score
    vals = [v for p, v in e['thr']]
    step = e['step']
    lo = max(D(0), min(vals) - 60 * step)
    hi = max(vals) + (max(vals) if ctx.tier == 'thorough' else min(max(vals), 400 * step))
    x = lo
    k = 0
    while x <= hi:
        s = str(x)
        attach.call(f, code, s)
        if step == 1:
            attach.call(f, code, int(x))
        else:
            attach.call(f, code, float(x))
            for name, v in computed_floats(int(x * 100)):
                attach.call(f, code, v)
            if x == x.to_integral_value():
                attach.call(f, code, int(x))
                attach.call(f, code, str(int(x)))
            attach.call(f, code.lower(), '%.1f' % x if (x * 10) % 1 == 0 else s)
        k += 1
        if k % 7 == 0:
            # the verbose flag prints the search, it must not change the points
            import contextlib
            import io
            with contextlib.redirect_stdout(io.StringIO()):
                attach.call(f, code, s, verbose=True)
                attach.call(f, code, s, True)
        if k % 9 == 0:
            for sp in (' ' + code, code + ' ', code.lower() + '\n'):
                attach.call(f, sp, s)
                ctx.count('eval.decorated-spelling')
        x += step


def bulgarian_jobs(mon):
    return [('bulgarian', key) for key in sorted(mon.bm.scores)]


def run_bulgarian(mon, ctx, job, rnd):
    _, key = job
    m = re.match(r'^(U\d+)([MFX])(.+)$', key)
    ag, g, ev = m.groups()
    T = mon.bm.scores[key]
    f = mon.bm.score
    timed = ev in J.BG_TIMED
    lo, hi = min(T['min'], T['max']), max(T['min'], T['max'])
    for n in range(max(0, lo - 300), hi + 301):
        attach.call(f, ag, g, ev, n / 100)
        for name, v in computed_floats(n):
            attach.call(f, ag, g, ev, v)
        if n % 100 == 0:
            attach.call(f, ag, g, ev, n // 100)
        if not timed and (n % 3 == 0 or ctx.tier == 'thorough'):
            # a field mark as text, the form every other scoring function takes as well
            attach.call(f, ag, g, ev, '%d.%02d' % divmod(n, 100))
        if timed and (n % 3 == 0 or ctx.tier == 'thorough'):
            attach.call(f, ag, g, ev, '%d.%02d' % divmod(n, 100))
            if n >= 6000:
                mm, r = divmod(n, 6000)
                attach.call(f, ag, g, ev, '%d:%02d.%02d' % (mm, r // 100, r % 100))
                if n % 10 == 0:
                    attach.call(f, ag, g, ev, '%d:%02d.%d' % (mm, r // 100, (r % 100) // 10))      # one decimal
                if n % 100 == 0:
                    attach.call(f, ag, g, ev, '%d:%02d' % (mm, r // 100))                          # whole seconds
            if n % 10 == 0:
                attach.call(f, ag, g, ev, '%d.%d' % (n // 100, (n % 100) // 10))


RUNNERS = {'tyrving': run_tyrving, 'qkids': run_qkids, 'sportshall': run_sportshall, 'bulgarian': run_bulgarian}


def all_jobs(mon):
    return tyrving_jobs(mon) + qkids_jobs(mon) + sportshall_jobs(mon) + bulgarian_jobs(mon)


def run_shard(ctx, spec):
    core.import_athlib()
    mon = Monitor(ctx)
    rnd = random.Random(ctx.seed * 2654435761 % (2 ** 31) + spec['i'])
    jobs = all_jobs(mon)
    ctx.info['jobs'] = len(jobs[spec['i']::spec['n']])
    for job in jobs[spec['i']::spec['n']]:
        RUNNERS[job[0]](mon, ctx, job, rnd)
    if spec['i'] == 0:
        mon.scan_tables()
        ctx.require('eval.table-row', 100)
    ctx.require('judged.tyrving', 100)
    ctx.require('judged.qkids', 100)


def shards(tier, seed):
    n = 16 if tier == 'quick' else 48
    return [{'i': i, 'n': n} for i in range(n)]


def replay(ctx, cases):
    core.import_athlib()
    mon = Monitor(ctx)
    for c in cases:
        s = c.get('sys')
        p = c.get('perf')
        if c.get('ptype') == 'int' and p is not None:
            p = int(p)
        if s == 'tyrving' and 'perf' in c:
            o = attach.call(mon.tm.tyrving_score, c['g'], c['age'], c['ev'], p)
        elif s == 'qkids' and 'perf' in c:
            o = attach.call(mon.qm.qkids_score, c['ct'], c['ev'], p)
        elif s == 'sportshall' and 'perf' in c:
            o = attach.call(mon.sm.sportshall_score, c['ev'], p)
        elif s == 'bulgarian' and 'perf' in c:
            o = attach.call(mon.bm.score, c['ag'], c['g'], c['ev'], p)
        else:
            mon.scan_tables()
            continue
        print('  %s -> %r' % (c, o))
