"""C16 - concurrent calls give the same answers as single-threaded ones.

Mechanism: delay injection at line events (vf/sched.py).  For every scenario (two or three calls
on one piece of shared module state, first-call and warmed-up) the calls are first executed one
after the other on freshly reset state (the sequential reference), then under controlled
schedules with forced pre-emptions at athlib source lines, and each thread's outcome is compared
with the reference.  A free-running stress mode (many threads, tiny switch interval, seeded
yields at athlib lines) complements the controlled schedules.
"""
import random
import sys
import threading
import time

from .. import core, sched

META = {
    'rule': ('scenarios = pairs / triples of calls on each piece of shared state (combined-events score and performance-needed, '
             'Hungarian, Sportshall, the shared WMA graders incl. the distance-interpolation path, the combined-events grader, the '
             'validation caches empty and at their size limit), first-call and warmed-up, equal and different arguments; schedules '
             '= ALL single pre-emptions (A stopped before each of its athlib line events, B runs to completion, A resumes; both '
             'roles) + seeded two-pre-emption schedules (all of them in thorough when n_A*n_B <= 60000) + seeded three-thread '
             'schedules + free-running stress rounds. distinct_nontrivial = distinct (scenario, pre-emption points) schedules in '
             'which another thread really executed athlib lines inside the suspended thread\'s window'),
    'assumptions': ['granularity is the source line inside athlib; pre-emptions inside one line or inside json / jsonschema / stdlib '
                    'code are not forced (only the stress mode can hit them)',
                    'module state is reset in place between runs (lazy tables to None, grader data and scratch deleted, caches '
                    'cleared or pre-filled to the 20-entry limit)'],
    'timeout': {'quick': 1500, 'thorough': 7200},
}


NO_WORKER_THREAD = True      # the controller drives its own threads


def C(fn, *args, **kw):
    return (fn, args, kw)


def scenarios():
    S = []

    def add(name, calls, warm=False, cache='empty', pre=()):
        # pre: calls made one after the other before the threads start (part of the scenario's start state)
        S.append({'name': name, 'calls': calls, 'warm': warm, 'cache': cache, 'pre': list(pre)})
    for warm in (False, True):
        w = '-warm' if warm else '-first'
        add('athlon-score-x-score' + w, [C('athlon_score', 'M', '100', 11.0), C('athlon_score', 'F', 'LJ', 5.5)], warm)
        add('athlon-score-x-same' + w, [C('athlon_score', 'M', '100', 11.0), C('athlon_score', 'M', '100', 11.0)], warm)
        add('athlon-score-x-needed' + w, [C('athlon_score', 'F', 'HJ', 1.7), C('athlon_performance_needed', 'M', 'SP', 800)], warm)
        add('athlon-needed-x-needed' + w, [C('athlon_performance_needed', 'M', '1500', 700), C('athlon_performance_needed', 'F', '800', 900)], warm)
        add('athlon-score-with-age' + w, [C('athlon_score', 'M', '100', 12.5, age=52), C('athlon_score', 'M', 'SP', 11.0, age=72)], warm)
        add('athlon-esaa-x-plain' + w, [C('athlon_score', 'M', '800', 120.0, esaa=True), C('athlon_score', 'M', '800', 121.0)], warm)
        add('hungarian-x-hungarian' + w, [C('hungarian_score', 'M', 'OUT', '100', 10.5), C('hungarian_score', 'F', 'IND', 'HJ', 1.8)], warm)
        add('sportshall-x-sportshall' + w, [C('sportshall_score', 'SLJ', '2.00'), C('sportshall_score', '800', '144')], warm)
        add('wma-factor-x-factor' + w, [C('wma_age_factor', 'm', 50, '100', year=2023), C('wma_age_factor', 'f', 72, 'MAR', year=2023)], warm)
        add('wma-factor-x-same' + w, [C('wma_age_factor', 'm', 50, '100', year=2023), C('wma_age_factor', 'm', 50, '100', year=2023)], warm)
        add('wma-factor-x-best' + w, [C('wma_age_factor', 'f', 61, '5K', year=2023), C('wma_world_best', 'm', 'HJ', year=2023)], warm)
        add('wma-grade-x-grade' + w, [C('wma_age_grade', 'm', 50, '5K', '16:23', year=2023), C('wma_age_grade', 'f', 65, 'LJ', 3.8, year=2023)], warm)
        add('wma-interpolated-x-tabulated' + w, [C('wma_age_factor', 'm', 50, '11K', year=2023), C('wma_age_factor', 'f', 40, '400', year=2023)], warm)
        add('wma-interpolated-x-interpolated' + w, [C('wma_age_factor', 'f', 60, '5.3M', year=2023), C('wma_world_best', 'm', '2400', year=2023)], warm)
        add('wma-2015-x-2015' + w, [C('wma_age_factor', 'm', 44, '800', year=2015), C('wma_age_grade', 'f', 58, '200', 30.1, year=2015)], warm)
        add('wma-2015-x-2023' + w, [C('wma_age_factor', 'm', 104.5, '100', year=2015), C('wma_age_factor', 'm', 104.5, '100', year=2023)], warm)
        add('wma-athlon-x-athlon' + w, [C('wma_athlon_age_factor', 'M', 66, '60H'), C('wma_athlon_age_factor', 'f', 69, 'LJ')], warm)
        add('wma-athlon-x-score-age' + w, [C('wma_athlon_age_factor', 'M', 45, 'SP'), C('athlon_score', 'F', 'JT', 30.0, age=50)], warm)
    for cache in ('empty', 'full'):
        add('schema_valid-x-schema_valid-' + cache, [C('schema_valid', 'json/performance.json'), C('schema_valid', 'json/race.json')], False, cache)
        add('schema_valid-x-same-' + cache, [C('schema_valid', 'json/metaschema.json'), C('schema_valid', 'json/metaschema.json')], False, cache)
        add('schema_valid-false-x-expect-' + cache, [C('schema_valid', 'json/athlete.json'), C('schema_valid', 'json/athlete.json', expect_failure=True)], False, cache)
        add('valid_against-x-valid_against-' + cache, [C('valid_against_schema', 'sample-jsons/athlete.json', 'json/athlete.json'),
                                                      C('valid_against_schema', 'sample-jsons/event_invalid.json', 'json/event.json')], False, cache)
        add('valid_against-x-schema_valid-' + cache, [C('valid_against_schema', 'sample-jsons/performance.json', 'json/performance.json'),
                                                     C('schema_valid', 'json/event.json')], False, cache)
    # functions without shared mutable state today: two threads must stay independent if a memo, a cached calculator
    # object or a shared scratch attribute is ever introduced behind them
    for warm in (False, True):
        w = '-warm' if warm else '-first'
        add('tyrving-hand-x-automatic' + w, [C('tyrving_score', 'F', 15, '200', '27.3'), C('tyrving_score', 'F', 15, '200', '27.31')], warm)
        add('tyrving-x-tyrving' + w, [C('tyrving_score', 'M', 12, '1500', '4:32.00'), C('tyrving_score', 'F', 13, 'HJ', 1.45)], warm)
        add('qkids-x-qkids' + w, [C('qkids_score', 'QuadKids Secondary', '100', 13.1), C('qkids_score', 'QKPRI', 'SLJ', '1.85')], warm)
        add('bulgarian-x-bulgarian' + w, [C('bulgarian_score', 'U16', 'M', '100', 12.5), C('bulgarian_score', 'U16', 'F', 'LJ', 4.85)], warm)
        add('normalize-x-normalize' + w, [C('normalize_event_code', 'dt 1.50 kg'), C('normalize_event_code', '100 H 84.0cm 8.50m')], warm)
        add('checkperf-x-checkperf' + w, [C('check_performance_for_discipline', '800', '2.33'), C('check_performance_for_discipline', '100m', '12')], warm)
        add('agegroup-x-agegroup' + w, [C('calc_uka_age_group', '2004-09-01', __import__('datetime').date(2025, 12, 31), 'XC'),
                                       C('calc_uka_age_group', '1980-02-29', __import__('datetime').date(2015, 2, 28), 'TF')], warm)
        add('sortkey-x-distance' + w, [C('discipline_sort_key', '4x100H'), C('get_distance', '6x5K')], warm)
        add('specific-code-x-specific-code' + w, [C('get_specific_event_code', 'SP', 'M', 'SEN'), C('get_specific_event_code', 'SP', 'M', 'U11')], warm)
    # a refused call next to an ordinary one: whatever a raising call holds (a lock, a half-updated memo) when it is
    # abandoned must not be there for the other thread to trip over
    for warm in (False, True):
        w = '-warm' if warm else '-first'
        add('wma-refused-x-ok' + w, [C('wma_age_factor', 'm', 50, 'NOSUCH', year=2023), C('wma_age_factor', 'f', 72, 'MAR', year=2023)], warm)
        add('wma-grade-unparsable-x-ok' + w, [C('wma_age_grade', 'm', 50, '5K', 'abc', year=2023), C('wma_age_grade', 'f', 65, 'LJ', 3.8, year=2023)], warm)
        add('athlon-refused-with-age-x-ok' + w, [C('athlon_score', 'M', '3000', 600.0, age=40), C('athlon_score', 'F', 'JT', 30.0, age=50)], warm)
        add('athlon-factor-refused-x-ok' + w, [C('wma_athlon_age_factor', 'M', 50, '150H'), C('wma_athlon_age_factor', 'f', 69, 'LJ')], warm)
        add('sportshall-unknown-x-ok' + w, [C('sportshall_score', 'NOSUCH', '2.00'), C('sportshall_score', '800', '144')], warm)
        add('hungarian-unknown-x-ok' + w, [C('hungarian_score', 'M', 'OUT', 'NOSUCH', 10.5), C('hungarian_score', 'F', 'IND', 'HJ', 1.8)], warm)
    for cache in ('empty', 'full'):
        add('valid_against-raising-x-ok-' + cache, [C('valid_against_schema', 'sample-jsons/event_invalid.json', 'json/event.json', expect_failure=True),
                                                   C('valid_against_schema', 'sample-jsons/athlete.json', 'json/athlete.json')], False, cache)
        add('schema_valid-missing-file-x-ok-' + cache, [C('schema_valid', 'json/no-such-schema.json'), C('schema_valid', 'json/race.json')], False, cache)
    # the same FAILING validation asked by two threads at once, nobody expecting the failure: both get False (whatever a failure
    # stores besides the answer - a message, the error - must be complete before the entry can be seen)
    for cache in ('empty', 'full'):
        add('valid_against-same-failing-twice-' + cache,
            [C('valid_against_schema', 'sample-jsons/race_invalid_position.json', 'json/race.json'),
             C('valid_against_schema', 'sample-jsons/race_invalid_position.json', 'json/race.json')], False, cache)
        add('schema_valid-same-failing-twice-' + cache, [C('schema_valid', 'json/athlete.json'), C('schema_valid', 'json/athlete.json')], False, cache)
        add('valid_against-failing-x-failing-' + cache,
            [C('valid_against_schema', 'sample-jsons/event_invalid.json', 'json/event.json'),
             C('valid_against_schema', 'sample-jsons/athlete_invalid.json', 'json/athlete.json')], False, cache)
    # an answer already cached as False, asked again by a caller who expects the error, next to a miss that has to evict
    for cache in ('empty', 'full'):
        add('valid_against-expect-on-cached-false-x-miss-' + cache,
            [C('valid_against_schema', 'sample-jsons/event_invalid.json', 'json/event.json', expect_failure=True),
             C('valid_against_schema', 'sample-jsons/athlete.json', 'json/athlete.json')], False, cache,
            pre=[C('valid_against_schema', 'sample-jsons/event_invalid.json', 'json/event.json')])
        add('schema_valid-expect-on-cached-false-x-miss-' + cache,
            [C('schema_valid', 'json/definitions/vertical_jump_performance.json', __import__('jsonschema').Draft4Validator, True),
             C('schema_valid', 'json/race.json')], False, cache,
            pre=[C('schema_valid', 'json/definitions/vertical_jump_performance.json', __import__('jsonschema').Draft4Validator)])
    # paths the anchored functions have that no scenario above walks (line-coverage report): the combined-events grade, a float
    # mark for Sportshall, ages past the last column of either table, the pure text helpers side by side
    for warm in (False, True):
        w = '-warm' if warm else '-first'
        add('wma-athlon-grade-x-grade' + w, [C('wma_athlon_age_grade', 'M', 50, '100', 12.0), C('wma_age_grade', 'f', 65, 'LJ', 3.8, year=2023)], warm)
        add('wma-athlon-grade-x-athlon-factor' + w, [C('wma_athlon_age_grade', 'F', 45, 'JT', 30.0), C('wma_athlon_age_factor', 'M', 66, '60H')], warm)
        add('sportshall-float-x-text' + w, [C('sportshall_score', 'SLJ', 2.8), C('sportshall_score', 'SHJ', '1.20')], warm)
        add('wma-past-last-column' + w, [C('wma_age_factor', 'm', 112, '100', year=2023), C('wma_age_factor', 'f', 101.5, 'HJ', year=2015)], warm)
        add('wma-best-x-best' + w, [C('wma_world_best', 'm', '7K', year=2023), C('wma_world_best', 'f', 'MAR', year=2023)], warm)
        add('wma-below-first-column' + w, [C('wma_age_factor', 'm', 3, '100', year=2023), C('wma_age_factor', 'f', 5, '60', year=2023)], warm)
        add('format-x-parse' + w, [C('format_seconds_as_time', 3599.9991, 2), C('parse_hms', '1;02;03.5')], warm)
        add('roundup-x-roundup' + w, [C('round_up_str_num', '59.9995', 3), C('round_up_str_num', '.0049', 2)], warm)
    # triples
    add('triple-athlon-first', [C('athlon_score', 'M', '100', 11.0), C('athlon_score', 'F', 'LJ', 5.5), C('athlon_performance_needed', 'M', 'HJ', 700)])
    add('triple-wma-first', [C('wma_age_factor', 'm', 50, '100', year=2023), C('wma_age_factor', 'f', 72, 'MAR', year=2023), C('wma_age_grade', 'm', 35, 'HJ', 2.0, year=2023)])
    add('triple-wma-warm', [C('wma_age_factor', 'm', 50, '100', year=2023), C('wma_age_factor', 'f', 72, '11K', year=2023), C('wma_world_best', 'f', 'DT', year=2023)], True)
    add('triple-cache-full', [C('schema_valid', 'json/performance.json'), C('schema_valid', 'json/race.json'), C('schema_valid', 'json/metaschema.json')], False, 'full')
    return S


WARMUP = [C('tyrving_score', 'F', 15, '200', '27.9'), C('tyrving_score', 'M', 13, 'HJ', 1.40), C('qkids_score', 'QKSEC', '100', 14.0),
          C('bulgarian_score', 'U16', 'M', '100', 13.0), C('normalize_event_code', 'sp 4.00 kg'), C('check_performance_for_discipline', '800m', '2:10'),
          C('get_distance', '4x100'), C('get_specific_event_code', 'DT', 'F', 'V50'),
          C('athlon_score', 'F', '200', 25.0), C('athlon_performance_needed', 'M', 'LJ', 500), C('hungarian_score', 'M', 'OUT', '200', 21.0),
          C('sportshall_score', 'SP', '9.50'), C('wma_age_factor', 'f', 45, '1500', year=2023), C('wma_age_factor', 'm', 45, '1500', year=2015),
          C('wma_world_best', 'f', 'PV', year=2023), C('wma_athlon_age_factor', 'F', 50, '800'), C('wma_age_factor', 'm', 36, '7K', year=2023)]


class Harness(object):
    def __init__(self, ctx):
        self.ctx = ctx
        import athlib
        self.a = athlib
        self.am = sys.modules['athlib.athlon_score']
        self.hm = sys.modules['athlib.hungarian_score']
        self.sm = sys.modules['athlib.sportshall_score']
        self.u = sys.modules['athlib.utils']
        self.gm = sys.modules['athlib.wma.agegrader']
        mods = [m for n, m in sys.modules.items() if m is not None and (n == 'athlib' or n.startswith('athlib.'))]
        self.locks = sched.instrument_locks(mods)
        ctx.info['modules_with_threading_proxy_per_shard'] = [sched.proxy_threading(mods)]
        ctx.info['instrumented_locks'] = [l._name for l in self.locks]
        import jsonschema
        self.js = jsonschema
        self.ref_cache = {}
        self.deadlocked = set()
        # import-time state of every athlib module: globals / class attributes that are None or EMPTY containers right
        # after import are the lazily built tables, caches and memos; they are put back to that state between runs
        # (empty containers are cleared in place so that references held elsewhere stay valid)
        self.initial = []
        for m in mods:
            for k, v in list(vars(m).items()):
                if k.startswith('__'):
                    continue
                if v is None or (isinstance(v, (dict, list, set)) and len(v) == 0):
                    self.initial.append((m, k, v))
                elif isinstance(v, type) and getattr(v, '__module__', '') == m.__name__:
                    for ck, cv in list(vars(v).items()):
                        if not ck.startswith('__') and (cv is None or (isinstance(cv, (dict, list, set)) and len(cv) == 0)):
                            self.initial.append((v, ck, cv))
        self.instances = [(g, dict(g.__dict__)) for g in (self.a.ag2015, self.a.ag2023, self.a.aag)]
        # state that cannot be put back by assignment: one-shot iterators / generators held at module level.  A module that
        # has one is re-executed (importlib.reload) at every reset instead; functions bound elsewhere keep working because
        # reload re-uses the module's own globals dict
        self.reload_mods = []
        for m in mods:
            its = [k for k, v in vars(m).items() if not k.startswith('__') and hasattr(v, '__next__')]
            if its and m.__name__ != 'athlib':
                self.reload_mods.append(m)
                ctx.info.setdefault('modules_reloaded_at_reset(one-shot iterator at module level)', []).append('%s: %s' % (m.__name__, its))
        ctx.info['resettable_state'] = sorted('%s.%s' % (getattr(o, '__name__', o), k) for o, k, v in self.initial)[:60]

    def fn(self, name):
        if name in ('schema_valid', 'valid_against_schema'):
            return getattr(self.u, name)
        return getattr(self.a, name)

    def thunk(self, call):
        f = self.fn(call[0])
        args, kw = call[1], call[2]

        def go():
            import contextlib
            import io
            if call[0] in ('schema_valid', 'valid_against_schema'):
                # the helpers print on failure; keep the worker's stdout clean (redirect is process-wide, harmless here)
                return f(*args, **kw)
            return f(*args, **kw)
        return go

    def reset(self, warm, cache, pre=()):
        for l in self.locks + sched.RUNTIME['locks']:
            l.renew()
        for m in self.reload_mods:
            import importlib
            importlib.reload(m)
            self.locks = self.locks + [l for l in sched.instrument_locks([m]) if l not in self.locks]
            sched.proxy_threading([m])
        for owner, k, v in self.initial:
            if v is None:
                setattr(owner, k, None)
            else:
                cur = getattr(owner, k, None)
                if cur is v:
                    v.clear()
                else:
                    v.clear()
                    setattr(owner, k, v)
        for g, d0 in self.instances:
            g.__dict__.clear()
            g.__dict__.update(d0)
        if cache == 'full':
            for i in range(20):
                self.u._schema_valid_cache[('dummy-%d.json' % i, self.js.Draft3Validator)] = True
                self.u._valid_against_schema_cache[('dummy-%d.json' % i, 'dummy-schema.json')] = True
        if warm:
            for c in WARMUP:
                try:
                    self.thunk(c)()
                except Exception:
                    pass
        for c in pre:
            import contextlib
            import io
            try:
                with contextlib.redirect_stdout(io.StringIO()):
                    self.thunk(c)()
            except Exception:
                pass

    @staticmethod
    def outcome(fn):
        try:
            return ('return', fn())
        except BaseException as e:     # noqa
            return ('raise', type(e).__name__, str(e)[:160])

    def reference(self, sc):
        """Sequential reference: each call alone on freshly reset state; None when the sequential orders disagree."""
        key = sc['name']
        if key in self.ref_cache:
            return self.ref_cache[key]
        alone = []
        for c in sc['calls']:
            self.reset(sc['warm'], sc['cache'], sc.get('pre', ()))
            alone.append(self.outcome(self.thunk(c)))
        ok = True
        import itertools
        for perm in itertools.permutations(range(len(sc['calls']))):
            self.reset(sc['warm'], sc['cache'], sc.get('pre', ()))
            got = {}
            for i in perm:
                got[i] = self.outcome(self.thunk(sc['calls'][i]))
            if any(got[i][:2] != alone[i][:2] for i in got):
                ok = False
        self.ref_cache[key] = alone if ok else None
        if not ok:
            # the calls of a scenario are independent questions: if their sequential answers depend on the order even after
            # a reset, there is no single-threaded reference to compare with - say so instead of passing silently
            self.ctx.count('unjudged.scenario-sequentially-order-dependent')
            self.ctx.sample('order-dependent-scenario', sc['name'], 5)
            self.ctx.inconclusive.append('scenario %s: sequential answers depend on the order of the calls (no reference)' % sc['name'])
        return self.ref_cache[key]

    def solo_lines(self, sc):
        """number of athlib line events of each call when run alone on the scenario's start state"""
        n = []
        self.traces = []
        for i, c in enumerate(sc['calls']):
            self.reset(sc['warm'], sc['cache'], sc.get('pre', ()))
            ctl = sched.Controller(core.REPO, {}, self.locks)
            ctl.record = []
            ctl.run([self.thunk(c)])
            n.append(ctl.counts.get(0, 0))
            self.traces.append(ctl.record)
        return n

    def points_for(self, ci, rnd, cap=400, extra=120):
        """pre-emption indices for call ci: every line event when the call is short; for long traces (table loading loops)
        the first, second and last visit of every distinct source line plus seeded others"""
        tr = self.traces[ci]
        n = len(tr)
        if n <= cap:
            return list(range(1, n + 1))
        occ = {}
        for i, loc in enumerate(tr):
            occ.setdefault(loc, []).append(i + 1)
        pts = set()
        for loc, idx in occ.items():
            pts.update(idx[:2])
            pts.add(idx[-1])
        pts.update(rnd.randrange(1, n + 1) for _ in range(extra))
        return sorted(pts)

    def run_schedule(self, sc, roles, points, ref):
        """roles: permutation (thread index -> call index); points: {(tid, k): next tid}"""
        ctx = self.ctx
        if sc['name'] in self.deadlocked:
            ctx.count('unjudged.schedule-of-a-scenario-already-found-deadlocking')
            return
        self.reset(sc['warm'], sc['cache'], sc.get('pre', ()))
        ctl = sched.Controller(core.REPO, points, self.locks)
        res, alive = ctl.run([self.thunk(sc['calls'][ci]) for ci in roles])
        ctx.count('eval.schedule')
        inside = sum(ctl.ran_inside.values())
        case = {'scenario': sc['name'], 'roles': list(roles), 'preempt': [[list(k), v] for k, v in sorted(points.items())],
                'at': [list(ctl.preempted_at.get(k, ())) for k in sorted(points)]}
        if alive:
            ctx.violation('deadlock:%s' % sc['name'].split('-')[0], case, 'all threads finish', 'threads %s never finished' % alive)
            self.deadlocked.add(sc['name'])       # one witness is enough; the abandoned threads stay blocked for ever
            return
        if ctl.stalled:
            ctx.count('eval.schedule-released-by-progress-watchdog')
        if ctl.lock_waits:
            ctx.count('eval.schedule-with-lock-handover')
        bad = False
        for tid, ci in enumerate(roles):
            want, got = ref[ci], res.get(tid)
            if got is None or got[:2] != want[:2]:
                where = ctl.preempted_at.get(sorted(points)[0]) if points else None
                loc = '%s:%s' % (where[0], where[2]) if where else 'no-preemption'
                kind = 'error' if got and got[0] == 'raise' else 'missing-or-different-value'
                if got and want and got[0] == 'return' and got[1] is None and want[1] is not None:
                    kind = 'valid-call-answered-None'
                ctx.violation('interleaving:%s:%s:preempted-in-%s' % (sc['name'].rsplit('-', 1)[0] if sc['name'].endswith(('-first', '-warm', '-empty', '-full')) else sc['name'],
                                                                     kind, loc),
                              dict(case, thread=tid, call=repr(sc['calls'][ci])), repr(want)[:200], repr(got)[:200])
                bad = True
        if not bad:
            ctx.count('judged.schedule')
            if inside > 0:
                if ctx.nt((sc['name'], tuple(roles), tuple(sorted(points.items())))):
                    ctx.count('judged.schedule-with-real-overlap')
                    ctx.sample('schedule-%d-preemptions' % len(points), dict(case, lines_run_inside_window=inside,
                                                                             outcomes=[repr(res.get(t))[:60] for t in range(len(roles))]), 3)
                for k in points:
                    w = ctl.preempted_at.get(k)
                    if w:
                        self.points_seen.add((w[0], w[1]))

    points_seen = set()


def stress(h, ctx, rounds, nthreads, seed):
    """Free-running complement: real pre-emptive threads, tiny switch interval, seeded yields at athlib lines."""
    rnd = random.Random(seed)
    S = [s for s in scenarios() if not s['name'].startswith('triple')]
    old = sys.getswitchinterval()
    sys.setswitchinterval(1e-6)
    root = core.REPO + '/athlib/'
    try:
        for r in range(rounds):
            sc = rnd.choice(S)
            ref = h.reference(sc)
            if ref is None:
                continue
            h.reset(sc['warm'], sc['cache'], sc.get('pre', ()))
            calls = [rnd.randrange(len(sc['calls'])) for _ in range(nthreads)]
            res = {}
            barrier = threading.Barrier(nthreads)
            yseed = rnd.randrange(1 << 30)

            def body(tid):
                yr = random.Random(yseed + tid)

                def local(frame, event, arg):
                    if event == 'line' and yr.random() < 0.03:
                        time.sleep(0)
                    return local

                def glob(frame, event, arg):
                    return local if frame.f_code.co_filename.startswith(root) else None
                f = h.thunk(sc['calls'][calls[tid]])
                barrier.wait()
                sys.settrace(glob)
                try:
                    res[tid] = h.outcome(f)
                finally:
                    sys.settrace(None)
            ths = [threading.Thread(target=body, args=(i,), daemon=True, name='scorer') for i in range(nthreads)]
            for t in ths:
                t.start()
            deadline = time.time() + 25
            for t in ths:
                t.join(max(0.0, deadline - time.time()))
            ctx.count('eval.stress-round')
            if any(t.is_alive() for t in ths):
                ctx.violation('deadlock:stress:%s' % sc['name'].split('-')[0], {'scenario': sc['name'], 'threads': nthreads}, 'all finish', 'hung')
                return
            for tid in range(nthreads):
                want, got = ref[calls[tid]], res.get(tid)
                ctx.count('eval.stress-call')
                if got is None or got[:2] != want[:2]:
                    ctx.violation('stress:%s:different-answer' % (sc['name'].rsplit('-', 1)[0]), {'scenario': sc['name'], 'threads': nthreads, 'call': repr(sc['calls'][calls[tid]])},
                                  repr(want)[:200], repr(got)[:200])
                    break
    finally:
        sys.setswitchinterval(old)


def run_shard(ctx, spec):
    core.import_athlib()
    import contextlib
    import io
    h = Harness(ctx)
    rnd = random.Random(ctx.seed * 7477 + spec['i'])
    S = scenarios()
    mine = S[spec['i']::spec['n']]
    ctx.info['scenarios'] = len(mine)
    sink = io.StringIO()
    with contextlib.redirect_stdout(sink):
        for sc in mine:
            ref = h.reference(sc)
            if ref is None:
                continue
            ns = h.solo_lines(sc)
            ctx.info.setdefault('line_events', {})[sc['name']] = ns
            k = len(sc['calls'])
            if k == 2:
                for roles in ((0, 1), (1, 0)):
                    na, nb = ns[roles[0]], ns[roles[1]]
                    pts_a = h.points_for(roles[0], rnd, cap=400 if ctx.tier == 'quick' else 6000)
                    if len(pts_a) < na:
                        ctx.count('eval.long-trace-sampled')
                    for i in pts_a:
                        h.run_schedule(sc, roles, {(0, i): 1}, ref)
                    # two pre-emptions: A stops at i, B runs j lines, A completes, B completes
                    total = na * nb
                    if ctx.tier == 'thorough' and total <= 60000:
                        pairs = [(i, j) for i in range(1, na + 1) for j in range(1, nb + 1)]
                    else:
                        pairs = [(rnd.randrange(1, na + 1), rnd.randrange(1, nb + 1)) for _ in range(100 if ctx.tier == 'quick' else 30000)]
                    for i, j in pairs:
                        h.run_schedule(sc, roles, {(0, i): 1, (1, j): 0}, ref)
            else:
                for _ in range(150 if ctx.tier == 'quick' else 5000):
                    roles = list(range(k))
                    rnd.shuffle(roles)
                    i = rnd.randrange(1, ns[roles[0]] + 1)
                    j = rnd.randrange(1, ns[roles[1]] + 1)
                    pts = {(0, i): 1, (1, j): 2}
                    if rnd.random() < 0.5:
                        pts[(2, rnd.randrange(1, ns[roles[2]] + 1))] = 0
                    h.run_schedule(sc, tuple(roles), pts, ref)
        stress(h, ctx, 12 if ctx.tier == 'quick' else 400, 8, ctx.seed * 31 + spec['i'])
    ctx.info['distinct_preemption_lines'] = sorted('%s:%s' % p for p in h.points_seen)
    ctx.info['distinct_preemption_line_count'] = len(h.points_seen)
    ctx.require('judged.schedule', 50)


def post_merge(merged, tier, seed):
    merged['required']['judged.schedule-with-real-overlap'] = 1000
    merged['required']['eval.stress-call'] = 200
    lines = merged['info'].get('distinct_preemption_lines')
    if isinstance(lines, list):
        merged['info']['distinct_preemption_line_count'] = len(set(lines))


def shards(tier, seed):
    n = 16 if tier == 'quick' else 46
    return [{'i': i, 'n': n} for i in range(n)]


def replay(ctx, cases):
    core.import_athlib()
    h = Harness(ctx)
    S = {s['name']: s for s in scenarios()}
    for c in cases:
        sc = S.get(c['scenario'])
        if not sc or 'roles' not in c:
            print('  ', c)
            continue
        ref = h.reference(sc)
        pts = {tuple(k): v for k, v in c['preempt']}
        print('  scenario %s roles %s pre-empt %s at %s; sequential reference %r' % (sc['name'], c['roles'], pts, c.get('at'), ref))
        h.run_schedule(sc, tuple(c['roles']), pts, ref)
