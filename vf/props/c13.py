"""C13 - UK age groups follow the rule cut-off dates for every birth and meeting date.

Monitor: recorder on athlib.uka.agegroups.calc_uka_age_group (alias in athlib rebound); each
observed call is judged against the rule-text oracle, fed to a monotonicity monitor along the
birth-date axis and paired with its option / representation twins.
"""
import datetime
import random
import re
import sys

from .. import attach, core
from ..mono import Mono
from ..oracles import agegroups as O

META = {
    'rule': ('cases = (birth date, match date, category, vets, underage, date-or-ISO-string) through the real '
             'calc_uka_age_group; distinct_nontrivial = distinct (birth, match, category, options) whose birth date lies '
             'within 3 days of an anniversary of a cut-off date (31 Aug, 31 Dec, 1 Jan, match day, 28/29 Feb) for a '
             'group-changing age, i.e. where an off-by-one would change the answer; shards partition the match dates'),
    'assumptions': ['TF rule-text equality asserted for match dates 1 Jan-30 Sep only (as the property says)',
                    'XC rule-text equality not asserted for 1-30 Sep (rule 507 year starts 1 Oct; the module and its tests '
                    'deliberately start the season on 1 Sep as rule 207 does); structural clauses judged for all dates'],
}

D = datetime.date
OPTS = [(True, False), (False, False), (True, True), (False, True)]
CATS = ('TF', 'XC', 'ROAD')
BOUNDARY_AGES = [0, 1, 7, 8, 9, 10, 11, 12, 13, 14, 15, 16, 17, 18, 19, 20, 21, 34, 35, 36, 39, 40, 44, 45, 64, 65, 99, 100, 104, 105, 109, 110]


ISO_VARIANT = re.compile(r'^\s*(\d{4})-?(\d{2})-?(\d{2})(?:[T ]00:00(?::00(?:\.0+)?)?)?\s*$')


class Monitor(object):
    def __init__(self, ctx):
        self.ctx = ctx
        self.m = sys.modules['athlib.uka.agegroups']
        attach.monitor(self.m, 'calc_uka_age_group', self.on_call)
        import athlib
        self.f = athlib.calc_uka_age_group
        assert self.f is self.m.calc_uka_age_group
        self.mono = Mono(self.on_break)
        self.twins = {}
        self.boundary = False

    def on_break(self, key, lo, hi):
        match, cat, vets, under = key
        self.ctx.violation('monotone:earlier-birth-younger-group:%s' % cat,
                           {'match': D.fromordinal(match), 'cat': cat, 'vets': vets, 'underage': under,
                            'birth_later': D.fromordinal(-lo[0]), 'birth_earlier': D.fromordinal(-hi[0])},
                           'rank non-decreasing', [lo[1], hi[1]])

    def on_call(self, args, kwargs, out):
        ctx = self.ctx
        ctx.count('eval.calc')
        a = list(args)
        b, m, cat = a[0], a[1], a[2]
        vets = kwargs.get('vets', a[3] if len(a) > 3 else True)
        under = kwargs.get('underage', a[4] if len(a) > 4 else False)
        form = 'date'
        if isinstance(b, str):
            form = 'iso'
            try:
                b = D.fromisoformat(b)
            except ValueError:
                # other ISO 8601 spellings of a calendar day: a midnight time part, the basic (undashed) form, blanks around it.
                # Whether the library reads them is its own business; if it answers, the answer is that day's group
                mt = ISO_VARIANT.match(b)
                try:
                    b = D(int(mt.group(1)), int(mt.group(2)), int(mt.group(3))) if mt else None
                except ValueError:
                    b = None
                if b is None:
                    ctx.count('unjudged.birth-text')
                    return
                form = 'iso-variant'
                if not out.ok:
                    ctx.count('unspecified.iso-variant-text-refused')
                    return
                ctx.count('judged.iso-variant-text')
        if type(b) is not D or type(m) is not D or cat not in CATS or b > m:
            ctx.count('unjudged.off-domain')
            return
        case = {'birth': b, 'match': m, 'cat': cat, 'vets': vets, 'underage': under, 'form': form}
        if not out.ok:
            ctx.violation('raise:%s:%s' % (type(out.value).__name__, cat), case, 'a group', repr(out))
            return
        g = out.value
        r = O.rank(g) if isinstance(g, str) else None
        if r is None:
            ctx.violation('not-a-group:%s' % cat, case, 'U9..U20/SEN/Vnn', repr(g))
            return
        want, asserted = O.tf(b, m, vets, under) if cat == 'TF' else O.road_xc(b, m, cat, vets, under)
        if cat == 'XC' and m.month == 9:
            asserted = False
        if asserted:
            ctx.count('judged.rule-text')
            if g != want:
                key = 'rule-text:%s' % cat
                if cat in ('XC', 'ROAD') and (m.month, m.day) == (8, 31):
                    key += ':match-date-is-31-august(cut-off-taken-as-the-same-day)'
                ctx.violation(key, case, want, g)
                return
        else:
            ctx.count('unspecified.rule-text-ambiguous-season')
        # structural clauses (all dates)
        self.mono.add((m.toordinal(), cat, vets, under), -b.toordinal(), r)
        tk = (b, m, cat)
        t = self.twins.get(tk)
        if t is None:
            t = self.twins[tk] = {}
        prev = t.get((vets, under, 'date' if form != 'date' else 'iso'))
        if prev is not None and prev != g:
            ctx.violation('representation:date-vs-iso-string:%s' % cat, case, prev, g)
        t[(vets, under, form)] = g
        base = t.get((True, False, form))
        if base is not None and (vets, under) != (True, False):
            exp = base
            if not vets and exp.startswith('V'):
                exp = 'SEN'
            if under and exp == 'U11':
                exp = g if g in ('U9', 'U11') else 'U9|U11'
            ctx.count('judged.options')
            if g != exp:
                ctx.violation('options:vets-or-underage-changes-other-groups:%s' % cat, case, exp, g)
        if self.boundary:
            if ctx.nt((b, m, cat, vets, under)):
                ctx.count('judged.boundary-case')
            ctx.sample('boundary-%s' % cat, dict(case, group=g), 2)


def match_dates(tier, rnd):
    out = set()
    years = (2023, 2024, 2025, 2026)          # one leap cycle
    for y in years:
        for mth in range(1, 13):
            out.add(D(y, mth, 1))
            out.add(D(y, mth, 1) - datetime.timedelta(days=1))
        for md in ((2, 28), (3, 1), (8, 30), (8, 31), (9, 1), (9, 30), (10, 1), (12, 31), (1, 1), (2, 14)):
            out.add(D(y, *md))
    # the seasons around the real clock as well: a "current season" computed from today's date at import time would only
    # disagree with the rule text for competitions near it
    now = D.today()
    for y in range(now.year - 1, now.year + 3):
        for md in ((8, 30), (8, 31), (9, 1), (9, 2), (12, 31), (1, 1), (2, 28), (3, 1)):
            out.add(D(y, *md))
    out.add(now)
    out.add(D(2024, 2, 29))
    out.add(D(2000, 2, 29))
    out.add(D(2100, 2, 28))
    out.add(D(2100, 3, 1))
    if tier == 'thorough':
        d = D(2023, 1, 1)
        while d <= D(2026, 12, 31):
            out.add(d)
            d += datetime.timedelta(days=1)
    else:
        while len(out) < 140:
            out.add(D(2023, 1, 1) + datetime.timedelta(days=rnd.randrange(1461)))
    return sorted(out)


def safe_date(y, m, d):
    try:
        return D(y, m, d)
    except ValueError:
        return D(y, m, 28)


def births_for(match, tier, ages=None):
    """(boundary births, background births)"""
    bnd = set()
    ages = ages or (BOUNDARY_AGES if tier == 'quick' else range(0, 113))
    anchors = [(8, 31), (12, 31), (1, 1), (match.month, match.day), (2, 28), (2, 29), (9, 1), (3, 1)]
    for age in ages:
        for (am, ad) in anchors:
            for yoff in (0, -1, 1):
                y = match.year - age + yoff
                if y < 1:
                    continue
                c = safe_date(y, am, ad)
                for k in range(-3, 4):
                    b = c + datetime.timedelta(days=k)
                    if b <= match:
                        bnd.add(b)
    stride = 11 if tier == 'quick' else 3
    bg = set()
    o = match.toordinal()
    for k in range(0, 110 * 366, stride):
        bg.add(D.fromordinal(o - k))
    return sorted(bnd), sorted(bg - bnd)


def run_shard(ctx, spec):
    core.import_athlib()
    mon = Monitor(ctx)
    rnd = random.Random(ctx.seed)
    dates = match_dates(ctx.tier, rnd)[spec['i']::spec['n']]
    f = mon.f
    ctx.info['match_dates'] = len(dates)
    nfull = (1 if spec['i'] % 4 == 0 else 0) if ctx.tier == 'quick' else 1
    full = set(random.Random(ctx.seed * 101 + spec['i']).sample(range(len(dates)), min(len(dates), nfull)))
    for di, m in enumerate(dates):
        bnd, bg = births_for(m, ctx.tier)
        mon.twins.clear()
        for cat in CATS:
            mon.boundary = True
            for b in bnd:
                for (v, u) in OPTS:
                    attach.call(f, b, m, cat, vets=v, underage=u)
                attach.call(f, b.isoformat(), m, cat)
                if b.year >= 1000 and (b.toordinal() + m.toordinal()) % 3 == 0:
                    for txt in (b.isoformat() + 'T00:00:00', ' ' + b.isoformat() + ' ', b.strftime('%Y%m%d'), b.isoformat() + ' 00:00:00',
                                b.isoformat() + '\n'):
                        attach.call(f, txt, m, cat)
            mon.boundary = False
            for b in bg:
                attach.call(f, b, m, cat)
                if b.toordinal() % 5 == 0:
                    attach.call(f, b, m, cat, vets=False, underage=True)
        if di in full:
            # complete day-by-day sweep for this match date (every day back 112 years)
            mon.twins.clear()
            o = m.toordinal()
            for cat in CATS:
                for k in range(0, 112 * 366):
                    attach.call(f, D.fromordinal(o - k), m, cat)
        mon.mono.maps.clear()
    ctx.require('judged.rule-text', 1000)
    ctx.require('judged.boundary-case', 1000)
    ctx.require('judged.options', 100)


def shards(tier, seed):
    n = 16 if tier == 'quick' else 64
    return [{'i': i, 'n': n} for i in range(n)]


def replay(ctx, cases):
    core.import_athlib()
    mon = Monitor(ctx)
    for c in cases:
        if 'birth' not in c:
            for b in (c['birth_later'], c['birth_earlier']):
                o = attach.call(mon.f, b, c['match'], c['cat'], vets=c['vets'], underage=c['underage'])
                print('  calc_uka_age_group(%s, %s, %s) -> %r' % (b, c['match'], c['cat'], o))
            continue
        b = c['birth'].isoformat() if c.get('form') == 'iso' else c['birth']
        o = attach.call(mon.f, b, c['match'], c['cat'], vets=c['vets'], underage=c['underage'])
        print('  calc_uka_age_group(%r, %s, %s, vets=%s, underage=%s) -> %r' % (b, c['match'], c['cat'], c['vets'], c['underage'], o))
