"""C14 - WMA age grading is defined, consistent and spelling-independent on its domain.

Monitors: recorders on athlib.wma_age_factor / wma_world_best / wma_age_grade /
wma_athlon_age_factor.  Every observed call on the tabulated domain is judged for definedness;
the consistency relation grade = standard/time (or mark/standard) is evaluated on the values
the public accessors return; a spelling monitor keyed by the canonical query compares all
gender spellings and letter cases; a monotonicity monitor orders the grades of one query.
"""
import decimal
import fractions
import json
import math
import os
import random
import sys

from .. import attach, core
from ..mono import Mono

META = {
    'rule': ('both single-event tables (2015, 2023) and the combined-events table x gender spellings x every tabulated event in '
             'upper and lower case (when the lower-case spelling is itself a valid event code) x ages from the first non-null '
             'column to 20 years past the last x performances around the open best, through the real public wrappers. '
             'distinct_nontrivial = distinct canonical (table, gender, event, age) points whose factor differs from 1 and for '
             'which factor, best and at least one grade were all judged consistent'),
    'assumptions': ['table domain (first non-null column, last column, event list) read from the JSON files by the harness',
                    'the combined-events grader has no public open best: only factor clauses and spelling independence apply',
                    'consistency relation judged to relative 1e-12'],
}
GENDERS = {'m': ['m', 'M', 'male', 'Male', 'MEN', 'Men'], 'f': ['f', 'F', 'female', 'Female', 'FEMALE', 'Women'.replace('Women', 'F ')]}
GENDERS['f'][-1] = 'f'          # keep only spellings whose first letter decides (the accepted convention)


class Monitor(object):
    def __init__(self, ctx):
        self.ctx = ctx
        import athlib
        self.a = athlib
        for n in ('wma_age_factor', 'wma_world_best', 'wma_age_grade', 'wma_athlon_age_factor', 'wma_athlon_age_grade'):
            attach.monitor(athlib, n, getattr(self, 'on_' + n), rebind_aliases=False)
        self.check = athlib.check_event_code
        self.kind = sys.modules['athlib.wma.agegrader'].AgeGrader.event_code_to_kind
        self.tables = {}
        wdir = os.path.join(core.REPO, 'athlib', 'wma')
        for y in (2015, 2023):
            with open(os.path.join(wdir, 'wma-data-%d.json' % y), encoding='utf-8') as f:
                self.tables[y] = json.load(f)
        with open(os.path.join(wdir, 'wma-athlons-data.json'), encoding='utf-8') as f:
            self.tables['athlons'] = json.load(f)
        self.rows = {}
        for y in (2015, 2023):
            for g in 'mf':
                for r in self.tables[y][g]:
                    self.rows[(y, g, r[0])] = r
        for g in 'mf':
            for r in self.tables['athlons'][g]:
                self.rows[('athlons', g, r[0])] = r
        self.spell = {}
        self.mono = Mono(self.on_break, tol=0.0)
        self.ok_points = {}

    # ---- domain helpers --------------------------------------------------------------------
    @staticmethod
    def canon_gender(g):
        if isinstance(g, str) and g and g[0].lower() in 'mf':
            return g[0].lower()
        return None

    def domain(self, year, g, event, age):
        """('in', row, note) | ('out', reason)"""
        row = self.rows.get((year, g, event.upper()))
        if row is None:
            return ('out', 'event-not-tabulated')
        ages = self.tables[year]['ages']
        fac = row[3:]
        nn = [i for i, v in enumerate(fac) if v is not None]
        if not nn:
            return ('out', 'row-all-null')
        first = ages[nn[0]]
        if not isinstance(age, (int, float, decimal.Decimal, fractions.Fraction)) or age < first or age > ages[-1] + 20:
            return ('out', 'age-outside')
        # interior / trailing nulls and zero factors: the table itself does not cover these ages
        lo = max(i for i, a in enumerate(ages) if a <= age) if age >= ages[0] else 0
        hi = min(lo + 1, len(ages) - 1) if age > ages[lo] else lo
        if age >= ages[-1]:
            lo = hi = len(ages) - 1
        if fac[lo] in (None, 0) or fac[hi] in (None, 0):
            return ('hole', 'table-cell-null-or-zero')
        return ('in', row, first)

    def year_of(self, kwargs, args, pos, default):
        y = kwargs.get('year', args[pos] if len(args) > pos else default)
        return 2015 if y == 2015 else 2023

    def spelling(self, fn, year, g, event, age, perf, got, case):
        key = (fn, year, g, event.upper(), age, perf)
        prev = self.spell.get(key)
        self.ctx.count('eval.spelling-compared')
        if prev is None:
            self.spell[key] = (got, case)
        elif prev[0] != got and not (isinstance(got, float) and isinstance(prev[0], float) and math.isnan(got) and math.isnan(prev[0])):
            self.ctx.violation('spelling:%s:differs-by-gender-spelling-or-event-case' % fn, {'a': prev[1], 'b': case}, prev[0], got)

    def mech(self, fn, exc, gender, event, age, dom):
        t = type(exc).__name__
        import re as _re
        if isinstance(event, str) and _re.match(r'^\d+(\.\d+)?m$', event):
            # one mechanism whatever the gender spelling or age: PAT_ROAD knows the mile suffix as a capital M only
            return '%s:raise:%s:lower-case-m-of-a-mile-road-code(read-as-metres)' % (fn, t)
        tags = []
        if isinstance(gender, str) and gender not in ('m', 'f'):
            tags.append('gender-spelling-other-than-m-f')
        if event != event.upper():
            import re
            if re.match(r'^\d+(\.\d+)?m$', event):
                tags.append('lower-case-m-of-a-mile-road-code(read-as-metres)')
            else:
                tags.append('lower-case-event')
        if dom[0] == 'in' and age is not None and age == dom[2]:
            tags.append('age-equals-first-non-null-column')
        return '%s:raise:%s:%s' % (fn, t, '+'.join(tags) or 'plain')

    # ---- recorders --------------------------------------------------------------------------
    def on_wma_age_factor(self, args, kwargs, out):
        ctx = self.ctx
        ctx.count('eval.factor')
        if len(args) < 3:
            return
        gender, age, event = args[:3]
        year = self.year_of(kwargs, args, 3, '2015')
        g = self.canon_gender(gender)
        if g is None or not isinstance(event, str):
            return
        dom = self.domain(year, g, event, age)
        case = {'fn': 'wma_age_factor', 'gender': gender, 'age': age, 'event': event, 'year': year}
        if dom[0] == 'out':
            ctx.count('unjudged.factor-' + dom[1])
            return
        if dom[0] == 'hole':
            # inside the quantified domain (first non-null column .. 20 past the last) but the table has no usable cell
            ok = out.ok and isinstance(out.value, (int, float)) and out.value > 0 and not math.isinf(out.value)
            if not ok:
                ctx.violation('factor:table-cell-null-or-zero:%s-%s-%s' % (year, g, event.upper()), case, 'finite positive float', repr(out))
            return
        if not out.ok:
            ctx.violation(self.mech('factor', out.value, gender, event, age, dom), case, 'finite positive float', repr(out))
            return
        f = out.value
        if isinstance(f, bool) or not isinstance(f, (int, float)) or not (f > 0) or math.isinf(f):
            ctx.violation('factor:not-finite-positive', case, 'finite positive', repr(f))
            return
        ctx.count('judged.factor')
        self.spelling('factor', year, g, event, age, None, f, case)
        self.ok_points.setdefault((year, g, event.upper(), age), {})['factor'] = f

    def on_wma_world_best(self, args, kwargs, out):
        ctx = self.ctx
        ctx.count('eval.best')
        if len(args) < 2:
            return
        gender, event = args[:2]
        year = self.year_of(kwargs, args, 2, '2023')
        g = self.canon_gender(gender)
        if g is None or not isinstance(event, str):
            return
        row = self.rows.get((year, g, event.upper()))
        if row is None:
            ctx.count('unjudged.best-event-not-tabulated')
            return
        case = {'fn': 'wma_world_best', 'gender': gender, 'event': event, 'year': year}
        if not out.ok:
            ctx.violation(self.mech('best', out.value, gender, event, None, ('x',)), case, row[2], repr(out))
            return
        if out.value != row[2]:
            ctx.violation('best:differs-from-table', case, row[2], out.value)
            return
        ctx.count('judged.best')
        self.spelling('best', year, g, event, None, None, out.value, case)

    def on_wma_age_grade(self, args, kwargs, out):
        ctx = self.ctx
        ctx.count('eval.grade')
        if len(args) < 4:
            return
        gender, age, event, perf = args[:4]
        year = self.year_of(kwargs, args, 5, '2023')
        g = self.canon_gender(gender)
        if g is None or not isinstance(event, str):
            return
        dom = self.domain(year, g, event, age)
        if dom[0] != 'in':
            ctx.count('unjudged.grade-' + dom[1])
            return
        t = own_hms(perf)          # the oracle's own reading of the performance, not the library's parser
        if t is None or not t > 0:
            return
        case = {'fn': 'wma_age_grade', 'gender': gender, 'age': age, 'event': event, 'perf': perf, 'year': year}
        if not out.ok:
            ctx.violation(self.mech('grade', out.value, gender, event, age, dom), case, 'a grade', repr(out))
            return
        gr = out.value
        # consistency with the values the public accessors return (canonical spelling)
        # the same query, the same year argument (verbatim: int or text), asked of the two accessors
        yraw = kwargs.get('year', args[5] if len(args) > 5 else '2023')
        f = attach.call(attach.original(self.a.wma_age_factor), g, age, event.upper(), year=yraw)
        b = attach.call(attach.original(self.a.wma_world_best), g, event.upper(), year=yraw)
        if not (f.ok and b.ok):
            ctx.count('unjudged.grade-accessors-raise')
            return
        std = b.value / f.value
        timed = self.kind(event.upper()) in ('road', 'track')
        want = std / t if timed else t / std
        if not isinstance(gr, float) or abs(gr - want) > 1e-12 * max(1.0, abs(want)):
            ctx.violation('grade:inconsistent-with-best-and-factor:%s' % ('timed' if timed else 'field'), case, want, gr)
            return
        if f.value == 1.0 and t == b.value and gr != 1.0:
            ctx.violation('grade:open-best-at-unit-factor-not-1.0', case, 1.0, gr)
            return
        ctx.count('judged.grade')
        if isinstance(perf, (int, float)):
            self.mono.add((year, g, event.upper(), age, timed), -t if timed else t, gr)
        self.spelling('grade', year, g, event, age, perf if not isinstance(perf, str) else ('s', perf), gr, case)
        d = self.ok_points.setdefault((year, g, event.upper(), age), {})
        d['grade'] = gr
        if f.value != 1.0 and 'factor' in d:
            if ctx.nt((year, g, event.upper(), age)):
                ctx.count('judged.points-with-nonunit-factor')
                ctx.sample('grade-%s' % ('timed' if timed else 'field'), dict(case, factor=f.value, best=b.value, grade=gr), 3)

    def on_break(self, key, lo, hi):
        self.ctx.violation('grade:better-performance-grades-lower', {'year': key[0], 'g': key[1], 'event': key[2], 'age': key[3],
                                                                     'worse': abs(lo[0]), 'better': abs(hi[0])},
                           'higher grade for the better performance', [lo[1], hi[1]])

    def on_wma_athlon_age_factor(self, args, kwargs, out):
        ctx = self.ctx
        ctx.count('eval.athlon-factor')
        if len(args) < 3:
            return
        gender, age, event = args[:3]
        g = self.canon_gender(gender)
        if g is None or not isinstance(event, str) or isinstance(age, bool) or not isinstance(age, (int, float)):
            return
        ev = event.upper()
        fe = ev
        if ev.endswith('H') and ev not in ('LH', 'SH', '60H') and ev[:-1].isdigit():
            d = int(ev[:-1])
            fe = 'SH' if d <= 110 else 'LH' if d >= 200 else None
        row = self.rows.get(('athlons', g, fe))
        ages = self.tables['athlons']['ages']
        if row is None or age < 0 or age > ages[-1] + 20:
            ctx.count('unjudged.athlon-factor-off-domain')
            return
        case = {'fn': 'wma_athlon_age_factor', 'gender': gender, 'age': age, 'event': event}
        band = 5 * int(age // 5)
        want = 1.0 if band < ages[1] else row[min((band - ages[0]) // 5, len(row) - 1)]
        if not out.ok:
            ctx.violation(self.mech('athlon-factor', out.value, gender, event, age, ('x',)), case, want, repr(out))
            return
        if out.value != want or isinstance(out.value, str):
            ctx.violation('athlon-factor:differs-from-table-band', case, want, out.value)
            return
        ctx.count('judged.athlon-factor')
        if want != 1.0:
            ctx.nt(('af', g, ev, band))
        self.spelling('athlon-factor', 'athlons', g, event, age, None, out.value, case)


    def on_wma_athlon_age_grade(self, args, kwargs, out):
        """The combined-events table holds factors only.  A grade is judged through the open best it implies
        (grade x time x factor, or mark x factor / grade): that must be an open best - within 20% of the one either single-event
        table gives for the same code - whatever column the grader took it from."""
        ctx = self.ctx
        ctx.count('eval.athlon-grade')
        if len(args) < 4:
            return
        gender, age, event, perf = args[:4]
        g = self.canon_gender(gender)
        if g is None or not isinstance(event, str) or isinstance(age, bool) or not isinstance(age, (int, float)) or \
                isinstance(perf, bool) or not isinstance(perf, (int, float)) or not perf > 0:
            return
        ev = event.upper()
        fe = ev
        if ev.endswith('H') and ev not in ('LH', 'SH', '60H') and ev[:-1].isdigit():
            d = int(ev[:-1])
            fe = 'SH' if d <= 110 else 'LH' if d >= 200 else None
        row = self.rows.get(('athlons', g, fe))
        ages = self.tables['athlons']['ages']
        bests = [self.rows[(y, g, ev)][2] for y in (2023, 2015) if (y, g, ev) in self.rows]
        if row is None or age < 0 or age > ages[-1] + 20 or not bests:
            ctx.count('unjudged.athlon-grade-off-domain-or-no-open-best-known')
            return
        case = {'fn': 'wma_athlon_age_grade', 'gender': gender, 'age': age, 'event': event, 'perf': perf}
        band = 5 * int(age // 5)
        f = 1.0 if band < ages[1] else row[min((band - ages[0]) // 5, len(row) - 1)]
        if not out.ok:
            ctx.violation('athlon-grade:raise:%s:%s' % (type(out.value).__name__, 'hurdles-code-with-a-distance' if fe != ev else 'plain'),
                          case, 'a grade', repr(out))
            return
        gr = out.value
        if isinstance(gr, bool) or not isinstance(gr, (int, float)) or not gr > 0 or gr != gr or gr == float('inf'):
            ctx.violation('athlon-grade:not-a-finite-positive-number', case, 'finite positive', repr(gr))
            return
        try:
            field = attach.call(self.kind, ev).value in ('throw', 'jump')
        except Exception:
            field = False
        implied = perf * f / gr if field else gr * perf * f
        if any(abs(implied - b) <= 0.2 * b for b in bests):
            ctx.count('judged.athlon-grade')
            ctx.nt(('ag', g, ev, band))
            return
        if any(isinstance(c, (int, float)) and abs(implied - c) <= 1e-9 * max(1.0, abs(c)) for c in row[1:]):
            key = 'athlon-grade:open-best-read-from-a-factor-column'
        else:
            key = 'athlon-grade:implied-open-best-is-not-an-open-best'
        ctx.violation(key, dict(case, implied_open_best=implied), 'about %s' % bests[0], implied)


def event_spellings(mon, ev, rnd=None):
    """the tabulated (upper-case) code, its lower-case form, a capitalised form and a seeded mixed-case form - every code
    "differing only in letter case".  They are NOT filtered through the library's own checker: which re-casings of a
    tabulated event are valid is part of what is being judged."""
    out = [ev]
    for v in (ev.lower(), ev.capitalize(), ev[:1].lower() + ev[1:].upper() if len(ev) > 1 else ev.lower()):
        if v not in out:
            out.append(v)
    if rnd is not None and any(c.isalpha() for c in ev):
        v = ''.join(c.lower() if rnd.random() < 0.5 else c.upper() for c in ev)
        if v not in out:
            out.append(v)
    return out


def ages_for(first, last, tier):
    if tier == 'thorough':
        a = []
        x = float(first)
        while x <= last + 20:
            a.append(int(x) if x == int(x) else x)
            x += 0.5
        return a
    cand = [first, first + 0.5, first + 1, 30, 34.5, 35, 50, 72.5, last - 1, last - 0.5, last, last + 0.5, last + 1, last + 20,
            99.5, 100, 100.5, 101, 104.5, 105, 109.5, 110, 110.5, 111, 120]        # absolute ages shared by both table years
    return sorted(set(c for c in cand if first <= c <= last + 20), key=float)


def own_hms(perf):
    """seconds of a performance: a number, or text of 1-3 fields separated by ':' or ';' read sexagesimally (each field a plain
    decimal number, whatever its size: 127:43.95 is 127 minutes); None for anything else"""
    if isinstance(perf, bool):
        return None
    if isinstance(perf, (int, float)):
        return perf
    if not isinstance(perf, str):
        return None
    import re
    fields = perf.strip().replace(';', ':').split(':')
    if not 1 <= len(fields) <= 3 or not all(re.match(r'^[0-9]+(\.[0-9]*)?$', f) for f in fields):
        return None
    t = 0.0
    for f in fields:
        t = t * 60 + float(f)
    return t


def table_shape(mon, ctx):
    """invariant on the live tables (as the graders hold them after use): one cell per age column in every row, each cell null or
    a number in (0, 50]; the distance and best columns numbers - a decimal comma, a dropped or doubled cell shifts every factor
    to its right by one age and no sweep over ages can tell, because the oracle reads the same file"""
    import athlib
    for name, ag in (('2015', athlib.ag2015), ('2023', athlib.ag2023), ('athlons', athlib.aag)):
        data = ag.get_data()
        nages = len(data['ages'])
        for g in 'mf':
            for row in data[g]:
                ctx.count('eval.table-row-shape')
                case = {'table': name, 'gender': g, 'row': row[0]}
                # single-event rows: code, distance, open best, one factor per age; combined-events rows: code, one factor per
                # five-year band from 35 (the first entry of its 'ages' list, 30, stands for the open class and has no cell)
                cells = row[3:] if name != 'athlons' else [None] + row[1:]
                if len(cells) != nages:
                    ctx.violation('table-shape:row-length-differs-from-age-columns:%s' % name, case, nages, len(cells))
                    continue
                bad = [(data['ages'][i], c) for i, c in enumerate(cells)
                       if c is not None and not (isinstance(c, (int, float)) and not isinstance(c, bool) and 0 < c <= 50)]
                if bad and not (name == '2015' and g == 'f' and row[0] == 'PV'):        # the listed finding (null / zero cells of that row)
                    ctx.violation('table-shape:cell-not-a-factor:%s' % name, dict(case, cells=bad[:5]), 'null or a number in (0, 50]', bad[:5])
                else:
                    ctx.nt(('shape', name, g, row[0]))


def run_shard(ctx, spec):
    core.import_athlib()
    mon = Monitor(ctx)
    a = mon.a
    rnd = random.Random(ctx.seed * 69069 + spec['i'])
    jobs = []
    # the two table years are interleaved event by event (2023 first, then 2015 at the same ages): the grader
    # objects are shared, so a lookup remembered for one table must not be replayed on the other
    for g in 'mf':
        evs = list(dict.fromkeys([r[0] for r in mon.tables[2023][g]] + [r[0] for r in mon.tables[2015][g]]))
        for ev in evs:
            for y in (2023, 2015):
                if (y, g, ev) in mon.rows:
                    jobs.append((y, g, ev))
    for g in 'mf':
        for r in mon.tables['athlons'][g]:
            jobs.append(('athlons', g, r[0]))
    mults = [0.5, 0.9, 0.99, 1.0, 1.01, 1.1, 2.0] if ctx.tier == 'quick' else [0.3 + 0.07 * i for i in range(25)] + [1.0]
    njobs = len(jobs)
    mine = [j for k, j in enumerate(jobs) if (k // 2) % spec['n'] == spec['i']] if True else jobs
    for (y, g, ev) in mine:
        if y == 'athlons':
            evs = event_spellings(mon, ev, rnd) + (['80H', '100H', '110H', '80h', '300H', '400H', '200H', '300h'] if ev in ('SH', 'LH') else [])
            ages = list(range(0, 131)) + [34.5, 35.5, 39.99, 112.5] if ctx.tier == 'thorough' else \
                [0, 1, 29, 30, 34, 34.5, 35, 36, 39, 40, 64.5, 65, 99, 100, 104, 105, 109, 110, 111, 114, 115, 120, 130]
            for e2 in evs:
                if e2.upper() in ('80H', '100H', '110H') and ev != 'SH':
                    continue
                if e2.upper() in ('300H', '400H', '200H') and ev != 'LH':
                    continue
                for gs in GENDERS[g]:
                    for age in ages:
                        attach.call(a.wma_athlon_age_factor, gs, age, e2)
                        if gs in ('m', 'f', 'M', 'F') and (mon.rows.get((2023, g, e2.upper())) or mon.rows.get((2015, g, e2.upper()))):
                            b0 = (mon.rows.get((2023, g, e2.upper())) or mon.rows.get((2015, g, e2.upper())))[2]
                            for mlt in (1.0, 1.3):
                                attach.call(a.wma_athlon_age_grade, gs, age, e2, b0 * mlt)
            continue
        row = mon.rows[(y, g, ev)]
        ages_l = mon.tables[y]['ages']
        nn = [i for i, v in enumerate(row[3:]) if v is not None]
        if not nn:
            continue
        first, last = ages_l[nn[0]], ages_l[-1]
        best = row[2]
        timed = mon.kind(ev) in ('road', 'track')
        if (g, ev) not in getattr(mon, '_stryear_done', set()):
            # the year argument as text: whichever table the wrappers choose for it, grade, best and factor must agree
            mon._stryear_done = getattr(mon, '_stryear_done', set()) | {(g, ev)}
            for ytxt in ('2015', '2023'):
                for age in (first, 50, last):
                    for m in (0.9, 1.0, 1.2):
                        attach.call(a.wma_age_grade, g, age, ev, best * m, year=ytxt)
                        ctx.count('eval.text-year-query')
        for e2 in event_spellings(mon, ev, rnd):
            for gs in GENDERS[g]:
                attach.call(a.wma_world_best, gs, e2, year=y)
                for age in ages_for(first, last, ctx.tier):
                    attach.call(a.wma_age_factor, gs, age, e2, year=y)
                    if gs in ('m', 'f') and (age != int(age) or int(age) % 10 == 0):
                        # an age is a number: a Decimal or a Fraction from a date subtraction is as good as a float
                        for alt in (decimal.Decimal(str(age)), fractions.Fraction(age)):
                            attach.call(a.wma_age_factor, gs, alt, e2, year=y)
                            attach.call(a.wma_age_grade, gs, alt, e2, best * 1.1, year=y)
                            ctx.count('eval.age-as-Decimal-or-Fraction')
                    if isinstance(age, int) and gs in ('m', 'f', 'F', 'M'):
                        # a whole age that is not a Python int (14.0 from a spreadsheet or a subtraction of floats)
                        attach.call(a.wma_age_factor, gs, float(age), e2, year=y)
                        attach.call(a.wma_age_grade, gs, float(age), e2, best * 1.1, year=y)
                        ctx.count('eval.whole-age-as-float')
                    if gs in ('m', 'f', 'M', 'Female', 'Male', 'F') or ctx.tier == 'thorough':
                        for m in (mults if gs in ('m', 'f') else mults[2:5]):
                            p = best * m
                            attach.call(a.wma_age_grade, gs, age, e2, p, year=y)
                        if gs in ('m', 'f') and isinstance(age, int) and age % 5 == 0:
                            # the verbose flag prints, it must not change what is returned
                            import contextlib
                            import io
                            with contextlib.redirect_stdout(io.StringIO()):
                                attach.call(a.wma_age_grade, gs, age, e2, best * 1.1, verbose=True, year=y)
                                attach.call(a.wma_age_grade, gs, age, e2, best * 1.1, True, y)
                            ctx.count('eval.verbose-calls')
                        if timed and gs in ('m', 'f') and best >= 60:
                            mm, ss = divmod(round(best * 1.05, 2), 60)
                            attach.call(a.wma_age_grade, gs, age, e2, '%d:%05.2f' % (mm, ss), year=y)
        # every column of the row, once, in the plain spelling (boundary ages alone would not touch a cell in mid-row)
        for age in ages_l[nn[0]:]:
            attach.call(a.wma_age_factor, g, age, ev, year=y)
            attach.call(a.wma_age_grade, g, age, ev, best * 1.05, year=y)
            ctx.count('eval.every-column-of-the-row')
        mon.mono.maps.clear()
        mon.spell.clear()
    if spec['i'] == 1:
        # pairs of questions whose arguments run together into the same text ((5, '15K') and (51, '5K') both read "515K"): asked
        # back to back in both orders, in the plain spelling with whole ages - a memo keyed on a concatenation answers one with
        # the other's factor
        for y in (2023, 2015):
            for g in 'mf':
                codes = [r[0] for r in mon.tables[y][g]]
                for e2 in codes:
                    for d in ('1', '2', '3', '10', '15'):
                        e1 = d + e2
                        if e1 not in codes:
                            continue
                        for a1 in range(5, 13):
                            a2 = int(str(a1) + d)
                            for first, second in (((a1, e1), (a2, e2)), ((a2, e2), (a1, e1))):
                                mon.mono.maps.clear()
                                attach.call(a.wma_age_factor, g, first[0], first[1], year=y)
                                attach.call(a.wma_age_factor, g, second[0], second[1], year=y)
                                attach.call(a.wma_age_grade, g, second[0], second[1], mon.rows[(y, g, second[1])][2] * 1.1, year=y)
                                ctx.count('eval.arguments-that-run-together')
                            # something else in between, so that the second order starts from a memo that has moved on
                            for filler in range(130):
                                attach.call(attach.original(a.wma_age_factor), g, 35 + filler % 60, codes[(filler * 7) % len(codes)], year=y)
    if spec['i'] == 0:
        table_shape(mon, ctx)
    ctx.require('judged.factor', 200)
    ctx.require('judged.grade', 200)
    ctx.require('judged.best', 20)


def post_merge(merged, tier, seed):
    merged['required']['judged.athlon-factor'] = 500


def shards(tier, seed):
    return [{'i': i, 'n': 16} for i in range(16)]


def replay(ctx, cases):
    core.import_athlib()
    mon = Monitor(ctx)
    a = mon.a
    for c in cases:
        for cc in ([c] if 'fn' in c else [c.get('a'), c.get('b')] if 'a' in c else []):
            fn = cc['fn']
            if fn == 'wma_age_factor':
                o = attach.call(a.wma_age_factor, cc['gender'], cc['age'], cc['event'], year=cc['year'])
            elif fn == 'wma_world_best':
                o = attach.call(a.wma_world_best, cc['gender'], cc['event'], year=cc['year'])
            elif fn == 'wma_age_grade':
                o = attach.call(a.wma_age_grade, cc['gender'], cc['age'], cc['event'], cc['perf'], year=cc['year'])
            else:
                o = attach.call(a.wma_athlon_age_factor, cc['gender'], cc['age'], cc['event'])
            print('  %s -> %r' % (cc, o))
        if 'worse' in c:
            for p in (c['worse'], c['better']):
                print('  grade(%s) -> %r' % (p, attach.call(a.wma_age_grade, c['g'], c['age'], c['event'], p, year=c['year'])))
