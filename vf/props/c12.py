"""C12 - performance validation returns plausible, well-formed marks or the given error.

Monitor: recorder on athlib.utils.check_performance_for_discipline (alias rebound).  Every
observed call made with a custom error class is judged: exception class, result type, format
and plausibility per event kind, and idempotence (a second real call from the monitor).
"""
import itertools
import random
import re
import sys

from .. import attach, core
from ..gen import relang

META = {
    'rule': ('events = customary codes, loose "100m"-style names and codes from the syntax tree of every family x texts from an '
             'entry grammar (1-3 fields, ":" ";" "." separators, "," or "." decimals, 0-3 decimals, leading zeros, fields over '
             '59/99, junk, blanks) x gender x precision option x a custom error class, through the real function. '
             'distinct_nontrivial = distinct (event, text, gender, prec) that were ACCEPTED and passed every clause (format, '
             'plausibility, idempotence) plus distinct refusals with the supplied class for a text matching the entry pattern'),
    'assumptions': ['documented sanity limits: 11 m/s up to 400 m, 10 m/s beyond, 0.5 m/s minimum; 120 % of the listed record',
                    'refusing a plausible entry with the supplied class is allowed by the property and is not an event',
                    'custom-scoring and fixed-duration events fall only under the error-class, string and idempotence clauses'],
}


class CustomError(Exception):
    pass


class Monitor(object):
    def __init__(self, ctx):
        self.ctx = ctx
        self.u = sys.modules['athlib.utils']
        cm = sys.modules['athlib.codes']
        self.P = {k: v for k, v in vars(cm).items() if k.startswith('PAT_')}
        attach.monitor(self.u, 'check_performance_for_discipline', self.on_call)
        import athlib
        self.f = athlib.check_performance_for_discipline
        assert self.f is self.u.check_performance_for_discipline
        self.raw = attach.original(self.f)
        self.parse = attach.original(self.u.parse_hms)
        self.dist = attach.original(self.u.get_distance)
        self.in_monitor = False

    def kind(self, ev):
        if re.match(r'^\d+m$', ev):
            return 'timed'
        if self.P['PAT_RACES_FOR_DISTANCE'].match(ev) or self.P['PAT_HIGHSCORING_EVENT'].match(ev) or self.P['PAT_LOWSCORING_EVENT'].match(ev):
            return 'custom'
        if self.P['PAT_FIELD'].match(ev):
            return 'field'
        if self.P['PAT_MULTI'].match(ev):
            return 'multi'
        if self.P['PAT_TIMED_EVENT'].match(ev):
            return 'timed'
        return None

    @staticmethod
    def own_distance(ev):
        """metres an event code plainly denotes (whole metres, hurdles / steeplechase / walk over whole metres, N[.d]K, N[.d]M miles,
        yards, the named road events, relays of whole-number legs); None when the monitor has no opinion"""
        c = ev.strip()
        named = {'MAR': 42195, 'HM': 21098, 'MILE': 1609}          # in the spelling the estimator itself knows them by
        if c in named:
            return named[c]
        m = re.match(r'^([0-9]{1,2})[xX]([0-9]{1,7})[Hh]?$', c)
        if m:
            return int(m.group(1)) * int(m.group(2))
        m = re.match(r'^([0-9]{1,7})(?:[Hh]|[Ss][Cc]|[Ww]|m)?$', c)
        if m:
            return int(m.group(1))
        m = re.match(r'^([0-9]{1,4}(?:\.[0-9]{1,2})?)([Kk]|[Kk][Ww]|M|MT|[Yy])$', c)
        if m:
            q = float(m.group(1))
            return q * {'K': 1000, 'KW': 1000, 'M': 1609, 'MT': 1609, 'Y': 0.9144}[m.group(2).upper()]
        return None

    def dclass(self, ev):
        try:
            d = self.dist(ev)
        except Exception:
            return 'distance-raises', None
        own = self.own_distance(ev)
        if own and (d is None or abs(d - own) > 0.01 * own + 1):
            # the estimator the validation relies on is badly off for a code whose distance is plain: the speed limits would be
            # applied to the wrong distance (consistently wrong on both sides, so the plausibility clause alone cannot see it)
            self.ctx.violation('distance:estimate-differs-from-the-plain-reading-of-the-code', {'ev': ev}, own, d)
            d = own
        if d is None:
            return 'unknown-distance', None
        return ('<=200m' if d <= 200 else '201-799m' if d < 800 else '>=800m'), d

    @staticmethod
    def tshape(t):
        t = t.strip().replace(';', ':')
        if ',' in t and '.' not in t:
            t = t.replace(',', '.')
        nf = t.count(':') + 1
        return '%d-field%s' % (nf, '-with-decimals' if '.' in t else '')

    def on_call(self, args, kwargs, out):
        if self.in_monitor:
            return
        ctx = self.ctx
        ctx.count('eval.check')
        a = list(args)
        ev, text = a[0], a[1]
        gender = kwargs.get('gender', a[2] if len(a) > 2 else 'all')
        klass = kwargs.get('errorKlass', a[4] if len(a) > 4 else ValueError)
        prec = kwargs.get('prec', a[5] if len(a) > 5 else None)
        if not isinstance(ev, str) or not isinstance(text, str):
            return
        k = self.kind(ev)
        if k is None:
            ctx.count('unjudged.not-an-event')
            return
        dc, d = self.dclass(ev) if k == 'timed' else ('n/a', None)
        case = {'ev': ev, 'text': text, 'gender': gender, 'prec': prec, 'klass': getattr(klass, '__name__', str(klass))}
        shape = self.tshape(text)
        if not out.ok:
            if isinstance(out.value, klass):
                ctx.count('judged.refused-with-supplied-class')
                if self.P['PAT_PERF'].match(text.strip()):
                    ctx.nt(('r', ev, text, gender, prec))
                return
            if klass is ValueError:
                ctx.count('unjudged.default-class')
                return
            ctx.violation('error-class-leak:%s:%s:%s:%s' % (type(out.value).__name__, k, dc, shape), case, klass.__name__, repr(out))
            return
        r = out.value
        if not isinstance(r, str):
            ctx.violation('result-not-a-string:%s' % k, case, 'str', repr(r))
            return
        bad = None
        if k == 'timed':
            m = re.match(r'^(?:(\d+):)?(?:(\d+):)?(\d+)(\.\d+)?$', r)
            if text.strip() == '' and ev.lower() == 'xc' and r == '':
                m = 'blank-xc'
            if not m:
                bad = 'timed:malformed-result'
            elif m != 'blank-xc':
                f1, f2, sec = m.group(1), m.group(2), int(m.group(3))
                fields = [x for x in (f1, f2) if x is not None]
                if fields and sec >= 60:
                    bad = 'timed:seconds-field->=60'
                elif len(fields) == 2 and int(fields[1]) >= 60:
                    bad = 'timed:minutes-field->=60-under-hours'
                else:
                    # the duration of the well-formed result, read by the monitor itself
                    dur = float(m.group(3) + (m.group(4) or ''))
                    for fld in fields[::-1][:1]:
                        dur += 60 * int(fld)
                    if len(fields) == 2:
                        dur += 3600 * int(fields[0])
                    if d:
                        if dur <= 0:
                            bad = 'timed:zero-duration-accepted'
                        else:
                            v = d / dur
                            lim = 11.0 if d <= 400 else 10.0
                            if v > lim + 1e-9:
                                bad = 'timed:too-fast-accepted'
                            elif v < 0.5 - 1e-9:
                                bad = 'timed:too-slow-accepted'
            if bad and 'field->=60' in bad:
                # mechanism: did the entry itself carry the over-range field, or did rounding produce it?
                tt = text.strip().replace(';', ':')
                over = any(re.match(r'^\d+', p) and int(re.match(r'^\d+', p).group()) >= 60 for p in tt.split(':')[1:]) or \
                    (':' not in tt and re.match(r'^\d+', tt) and int(re.match(r'^\d+', tt).group()) >= 60)
                bad += ':entered-field->=60' if over else ':produced-by-rounding-or-rewriting'
        elif k == 'field':
            if not re.match(r'^\d+\.\d\d$', r):
                bad = 'field:not-a-two-decimal-number'
                if not (ev in self.u.FIELD_EVENTS):
                    bad += ':code-not-in-FIELD_EVENTS-tuple(%s)' % ('lower-case' if ev.upper() in self.u.FIELD_EVENTS else 'weight-specific-or-seated')
            else:
                # a record is listed for the generic codes only (any letter case); a weight-specific code has none
                rec = listed_record(ev, gender)
                if rec and float(r) > rec * 1.2 + 1e-9:
                    bad = 'field:beyond-120%-of-record'
                    if not (ev in self.u.FIELD_EVENTS):
                        bad += ':code-not-in-FIELD_EVENTS-tuple'
        elif k == 'multi':
            if not re.match(r'^\d+$', r) or int(r) >= 10000:
                bad = 'multi:not-an-integer-below-10000'
                if ev != ev.upper():
                    bad += ':lower-case-code'
        if bad:
            ctx.violation(bad, case, 'well-formed plausible mark', r)
            return
        # idempotence: validating the returned value again is accepted and returns it unchanged
        self.in_monitor = True
        try:
            kw = {'gender': gender, 'errorKlass': klass}
            if prec is not None:
                kw['prec'] = prec
            again = attach.call(self.raw, ev, r, **kw)
        finally:
            self.in_monitor = False
        ctx.count('eval.idempotence')
        if not again.ok or again.value != r:
            # mechanism = which rule fires on the function's own output
            tt = text.strip().replace(';', ':')
            fields = tt.split(':')
            mm = re.match(r'^\d+$', fields[-2]) if len(fields) >= 2 else None
            if k == 'timed' and d == 400 and mm and int(fields[-2]) > 45 and len(fields[-2]) <= 2:
                # the 400 m "63:40 means 63.40" rewrite turned the minutes into seconds: 100 s and more come out
                why = '400m-minutes-reread-as-seconds-gives-100s-or-more'
            elif again.ok:
                why = 'altered'
            else:
                msg = str(again.value)
                why = 'refused-again:' + ('own-output-not-matching-PAT_PERF' if msg.startswith('Illegal numeric pattern') else
                                          # a result with a colon is re-read as s.hh / mm:ss.hh by the format heuristics; a plain seconds
                                          # result that is refused as too fast is the returned mark itself lying beyond the limit
                                          ('too-fast' if ':' in r or d is None or d > 400 else 'too-fast:plain-seconds-result') if 'too fast' in msg else
                                          'too-slow' if 'too slow' in msg else
                                          'use-mm:ss' if msg.startswith('Please use') else
                                          'beyond-record' if 'seems too large' in msg else 'other')
            ctx.violation('idempotence:%s:%s:%s' % (why, k, dc), dict(case, first=r), r, repr(again))
            return
        ctx.count('judged.accepted-and-consistent')
        if ctx.nt(('a', ev, text, gender, prec)):
            ctx.sample('accepted-%s' % k, dict(case, result=r), 4)


# the records the library lists (pinned copy, so that the oracle does not ask the code under test): generic codes only, any
# letter case; a gender label other than m / f means "whichever is greater"
RECORDS = {'m': {'HJ': 2.45, 'LJ': 8.95, 'TJ': 18.29, 'PV': 6.16, 'HT': 86.74, 'DT': 74.08, 'WT': 24.57, 'SP': 23.12, 'JT': 104.80},
           'f': {'HJ': 2.09, 'LJ': 7.52, 'TJ': 15.50, 'PV': 5.06, 'HT': 82.98, 'DT': 76.80, 'WT': 22.50, 'SP': 22.63, 'JT': 72.28}}


def listed_record(ev, gender):
    g = gender.lower() if isinstance(gender, str) else 'all'
    e = ev.upper()
    if e not in RECORDS['m']:
        return None
    return RECORDS[g][e] if g in RECORDS else max(RECORDS['m'][e], RECORDS['f'][e])


CUSTOMARY = ['60', '100', '200', '300', '400', '600', '800', '1000', '1500', 'MILE', '3000', '5000', '10000', '60H', '100H', '110H', '400H',
             '2000SC', '3000SC', '4x100', '4x400', '4x200', 'HJ', 'PV', 'LJ', 'TJ', 'SP', 'DT', 'HT', 'JT', 'WT', 'DEC', 'HEP', 'PEN',
             'XC', '5K', '10K', 'HM', 'MAR', '3000W', '20KW', 'T30', '24HR', 'H1', 'L2', 'BAL',
             '100m', '200m', '400m', '800m', '1500m', '5000m', '10000m',
             'hj', 'lj', 'sp', 'SP7.26K', 'DT1.5K', 'JT800', 'HT4K', 'SHJ', 'SLJ', 'dec', '4xRELAY', '4xDMR', '4x100H', '3x800', 'xc', '5M', '10M',
             '100y', '100Y', '220y', '440y', '880Y', '100 y', '2MILE', '2MT', '5MT', '4x110y' if False else '4x200', 'SC', 'LH', 'SH', '3KW', '50KW', 'HMW', 'MARW',
             '4xSMR', '4xSSMR', '4xSWR', '4xSDMR', '1.5M', '26.2M', '0.5K', '100K', '150K', '999K']


def texts(rnd, n):
    out = ['', ' ', '0', '00', '0:00', '00:00:00', '0;00', '0.0', '9.58', '09.58', '10', '10.0', '10.00', '10.005', '10,5', '10;5', '10:5', '1:59.999',
           '59.999', '1:60', '60', '60.0', '61', '99', '99.99', '100', '100.5', '119.9', '1:00', '1:00.0', '1:01.5', '2:05', '2.05', '2:05.33', '2.05.33',
           '2:5', '3:59.4', '3.59.4', '4:05:33', '0:4:05', '00:04:05.3', '0:11:15', '00:14:53.2', '13:30.5', '13:30', '14:30.5', '26:17.53', '27.30.1',
           '63:40', '63.40', '45:00', '46:00', '81:93', '1:81:93', '2:03:59', '2:03:59.5', '2.03.59', '2:61:00', '2:59:60', '3:00:00', '1:70', '1:7', '12:34:56.789',
           '99:99:99', '9:99', '99:59', '100:00', '1:00:00:00', 'abc', '1e3', '1,000', '1 00', '-5', '+5', '5.', '.5', '5..5', '5:', ':5', '6.5.4.3', '2.45',
           '2.46', '2.94', '2.95', '8.95', '10.74', '10.75', '23.12', '27.74', '27.75', '104.80', '125.76', '125.77', '1.8', '18', '180', '7000', '7000.5',
           '9999', '10000', '09999', '1234.0', '12 34', '8:', '6,50', '6,5,0', '１２.5', '٣.5', '5\n', '\t12.5 ',
           '99.994', '99.995', '99.999', '99.9951', '59.995', '59.996', '9.995', '99:59.995', '99:59.999', '59:59.999', '9:59.995', '99.95', '99.949',
           '100%', '%s', '12.5%', '1:%d', '%(t)s', '{0}', '12.{}', '\\', '$1', '12.5$', '%', '1:2%', '9%9']
    # absurdly long digit runs (PAT_PERF does not bound the last field): inf / overflow inside the heuristics
    for big in ('9' * 309, '9' * 400, '1' + '0' * 320):
        out += ['50:' + big, '46:' + big, '1:' + big, big, '12.' + big, '1:02:' + big, '50:' + big + '.5', '59;' + big]
    for pre in ('', '1:', '59:', '1:00:', '1:59:', '2:30:', '0:59:', '00:', '3:00:', '12:', '1:01:'):
        for sec in ('59.99', '59.994', '59.995', '59.999', '59.9999', '59,9991', '9.999', '9.995', '09.996', '59.9', '00.004', '00.005', '0.999'):
            out.append(pre + sec)
    digs = '0123456789'
    for _ in range(n):
        nf = rnd.choice([1, 1, 2, 2, 3])
        parts = []
        for i in range(nf):
            w = rnd.choice([1, 2, 2, 2, 3])
            s = ''.join(rnd.choice(digs) for _ in range(w))
            if rnd.random() < 0.3:
                s = rnd.choice(['0', '00', '59', '60', '61', '99', '5', '05', '1', '2', '3', '4', '10', '12', '45', '46'])
            parts.append(s)
        sep = rnd.choice([':', ':', ':', ';', '.'])
        t = sep.join(parts)
        if rnd.random() < 0.6:
            t += rnd.choice(['.', ',', '.', '']) + ''.join(rnd.choice(digs) for _ in range(rnd.choice([0, 1, 2, 2, 3])))
        out.append(t)
    return list(dict.fromkeys(out))


def limit_texts(d):
    """entries within 12 thousandths of the durations at which the documented speed limits bite (11 m/s up to 400 m, 10 m/s
    beyond, 0.5 m/s everywhere): the mark that is RETURNED must respect them, whatever rounding the formatting applies"""
    out = []
    for lim in ((d * 1000 * 10 + 109) // 110 if d <= 400 else d * 100, d * 2000):     # thousandths of a second
        for off in range(-12, 13):
            n = lim + off
            if n <= 0:
                continue
            sec, ms = divmod(n, 1000)
            for frac in ('.%03d' % ms, '.%02d' % (ms // 10), '.%d' % (ms // 100)):
                h, rem = divmod(sec, 3600)
                m, s0 = divmod(rem, 60)
                if sec < 100:
                    out.append('%d%s' % (sec, frac))
                if h:
                    out.append('%d:%02d:%02d%s' % (h, m, s0, frac))
                else:
                    out.append('%d:%02d%s' % (m, s0, frac))
    return list(dict.fromkeys(out))


def run_shard(ctx, spec):
    core.import_athlib()
    mon = Monitor(ctx)
    rnd = random.Random(ctx.seed * 131 + 5)
    events = list(CUSTOMARY)
    per = 60 if ctx.tier == 'quick' else 500
    for fam in ('PAT_TRACK', 'PAT_HURDLES', 'PAT_ROAD', 'PAT_RELAYS', 'PAT_JUMPS', 'PAT_THROWS', 'PAT_MULTI', 'PAT_RACES_FOR_DISTANCE',
                'PAT_HIGHSCORING_EVENT', 'PAT_LOWSCORING_EVENT'):
        g = relang.Gen(mon.P[fam], seed=ctx.seed + len(fam), ascii_only=True, maxrep=3)
        events.extend(g.many(per))
    for fi, fam in enumerate(('PAT_TRACK', 'PAT_HURDLES', 'PAT_ROAD', 'PAT_RELAYS', 'PAT_THROWS', 'PAT_RACES_FOR_DISTANCE')):
        # event codes with digit / blank runs of 45 / 130 / 700: the language has no length bound
        g = relang.Gen(mon.P[fam], seed=ctx.seed * 19 + fi, ascii_only=True, maxrep=1, long_repeats=(45, 130, 700))
        longs = [c for c in g.many(16) if len(c) > 40][:6]
        ctx.count('eval.event-codes-longer-than-40-characters', len(longs))
        events.extend(longs)
    events = list(dict.fromkeys(events))
    T = texts(rnd, 280 if ctx.tier == 'quick' else 1900)
    ctx.info['events'] = len(events)
    ctx.info['texts'] = len(T)
    opts = [(g, p) for g in ('all', 'm', 'f', 'M', 'W', 'X', '', 'Mixed', 'F') for p in (None, 0, 1, 2, 3)]
    f = mon.f
    mine = events[spec['i']::spec['n']]
    if spec['i'] == 0:
        # history: two spellings that differ only in letter case (50m = 50 metres, 50M = 50 miles; Mar / MAR) are validated
        # alternately in one process - a memo keyed on the case-folded code would answer one with the other's distance
        pairs = [('50m', '50M'), ('100m', '100M'), ('Mar', 'MAR'), ('5k', '5K'), ('10m', '10M'), ('mile', 'MILE'), ('3000w', '3000W'), ('hm', 'HM'),
                 # the same code with and without blanks inside (the distance estimator reads the part before the first blank: a memo
                 # keyed on the code with its blanks removed would hand one spelling the other's distance)
                 ('110H106.7cm', '110H 106.7cm'), ('100Y', '100 Y'), ('100y', '100 y'), ('400H91.4cm', '400H 91.4cm'), ('3000SC', '3000 SC'),
                 ('440y', '440 y'), ('5K', '5 K'), ('100H84cm8.5m', '100 H 84cm 8.5m'), ('10KW', '10 KW'), ('880Y', '880 Y')]
        hist_texts = ['6.45', '14:30:00', '2:10:00', '10.5', '15:00', '25:00.5', '1:05:00', '59.5', '4:10.2', '12:00:00', '20:00:00',
                      '5.00', '9:30:00', '20.00', '8.50', '9.085', '8.30', '9.00', '36.20', '40.1', '1:50.5', '8:30.5', '13.2']
        for a, b in pairs:
            for order in ((a, b), (b, a)):
                for t in hist_texts:
                    for ev in order:
                        attach.call(f, ev, t, errorKlass=CustomError)
                    ctx.count('eval.case-pair-history')
    for ei, ev in enumerate(mine):
        customary = ev in CUSTOMARY
        dc, d = mon.dclass(ev) if mon.kind(ev) == 'timed' else (None, None)
        if mon.kind(ev) == 'field' and ev.upper() in RECORDS['m']:
            # entries within 12 thousandths of 120 % of the listed record: the mark that is RETURNED must respect the limit
            for g in ('m', 'f', 'all', 'M', 'F'):
                lim = int(round(listed_record(ev, g) * 1200))
                for off in range(-12, 13):
                    n = lim + off
                    for t in ('%d.%03d' % divmod(n, 1000), '%d.%02d' % (n // 1000, n % 1000 // 10), '%d,%03d' % divmod(n, 1000)):
                        attach.call(f, ev, t, gender=g, errorKlass=CustomError)
                        ctx.count('eval.entries-at-the-record-limit')
        if d and (customary or ei % 4 == 0):
            for t in limit_texts(int(d)):
                for p in (None, 0, 1, 2, 3):
                    kw = {} if p is None else {'prec': p}
                    attach.call(f, ev, t, gender='all', errorKlass=CustomError, **kw)
                    ctx.count('eval.entries-at-the-speed-limits')
        for t in T:
            if customary:
                for (g, p) in opts:
                    if p is None:
                        attach.call(f, ev, t, gender=g, errorKlass=CustomError)
                    else:
                        attach.call(f, ev, t, gender=g, errorKlass=CustomError, prec=p)
            else:
                g, p = opts[(ei + len(t)) % len(opts)]
                if p is None:
                    attach.call(f, ev, t, gender=g, errorKlass=CustomError)
                else:
                    attach.call(f, ev, t, gender=g, errorKlass=CustomError, prec=p)
    ctx.require('judged.accepted-and-consistent', 200)
    ctx.require('judged.refused-with-supplied-class', 200)


def shards(tier, seed):
    return [{'i': i, 'n': 16} for i in range(16)]


def replay(ctx, cases):
    core.import_athlib()
    mon = Monitor(ctx)
    for c in cases:
        kw = {'gender': c['gender'], 'errorKlass': CustomError}
        if c.get('prec') is not None:
            kw['prec'] = c['prec']
        o = attach.call(mon.f, c['ev'], c['text'], **kw)
        print('  check_performance_for_discipline(%r, %r, %s) -> %r' % (c['ev'], c['text'], {k: v for k, v in kw.items() if k != 'errorKlass'}, o))
