"""C05 - a better performance never scores fewer points, in any scoring system.

Monitors: recorders on athlon_score, hungarian_score, tyrving_score, qkids_score,
sportshall_score and bulgarian_score feed one online monotonicity monitor per table key
(sorted map, neighbour comparison on insert) and a range monitor; the Tyrving hand-timed
figure is paired with the same figure timed electronically.
"""
import random
import sys
from fractions import Fraction as F

from .. import attach, core
from ..mono import Mono
from ..oracles import athlon as AO
from ..oracles import junior as J
from . import c11

META = {
    'rule': ('for every table key (system, event, gender, age / group, competition type, indoor/outdoor, timing kind, esaa) '
             'marks on the 0.01 grid are driven through the real scoring functions in adjacent-pair windows (whole grids in '
             'thorough; boundary + seeded windows for the long road events); each observed (key, mark, points) is inserted '
             'into a sorted map and compared with both neighbours. distinct_nontrivial = distinct adjacent pairs compared '
             'whose two points differ (the score really moved) - counted by the monitor'),
    'assumptions': ['Hungarian timed marks slower than the zero-point of the parabola are outside the property and not driven',
                    'better = smaller for timed events (by the system\'s own table kind), larger otherwise'],
}


class NullCtx(object):
    """C11's exactness judgements are not part of C05: only its normalisation + tap are reused."""
    def __getattr__(self, k):
        return lambda *a, **kw: None

    samples = {}


class Monitor(object):
    def __init__(self, ctx):
        self.ctx = ctx
        self.mono = Mono(self.on_break, repeats='compare')
        self.moved = 0
        self.c11 = c11.Monitor(NullCtx())
        self.c11.ctx.nt = lambda *a, **k: False
        self.c11.on_points = self.on_points
        self.am = sys.modules['athlib.athlon_score']
        self.hm = sys.modules['athlib.hungarian_score']
        self.live = AO.live_rows(self.am)
        attach.monitor(self.am, 'score', self.on_athlon)
        attach.monitor(self.hm, 'score', self.on_hungarian)
        import athlib
        assert athlib.hungarian_score is self.hm.score and athlib.athlon_score is self.am.score
        self.hand = {}

    def on_break(self, key, lo, hi):
        # lo = (x_lo, y_lo) is the worse mark, hi the better one with fewer points
        system = key[0]
        k = 'monotone:%s' % system
        if system == 'hungarian':
            k += ':%s' % key[1][2]
        elif system in ('tyrving', 'qkids', 'sportshall', 'bulgarian'):
            k += ':%s' % '/'.join(str(p) for p in key[1][:2])
        elif system == 'athlon':
            k += ':%s-%s' % (key[1][0], key[1][1])
        self.ctx.violation(k, {'system': system, 'key': key[1], 'worse_mark': float(abs(lo[0])), 'worse_points': lo[1],
                               'better_mark': float(abs(hi[0])), 'better_points': hi[1]},
                           'better mark never fewer points', [lo[1], hi[1]])

    def feed(self, system, key, v, timed, points, lo, hi, case):
        ctx = self.ctx
        ctx.count('eval.' + system)
        if type(points) is not int or not (lo <= points <= hi):
            ctx.violation('range:%s:%s' % (system, 'negative' if isinstance(points, (int, float)) and points < 0 else 'not-int-or-out-of-bounds'),
                          case, '%s..%s integer' % (lo, hi), repr(points))
            return
        x = -v if timed else v
        before = self.mono.pairs
        m = self.mono.maps.get((system, key))
        # count pairs whose score moved (non-trivial adjacency)
        if m is not None and x not in m:
            i = m.bisect_left(x)
            if i > 0 and m.peekitem(i - 1)[1][1] != points:
                self.moved += 1
                ctx.sample('adjacent-pair-%s' % system, {'key': key, 'worse_mark': float(abs(m.peekitem(i - 1)[0])), 'worse_points': m.peekitem(i - 1)[1][1],
                                                        'better_mark': float(abs(x)), 'better_points': points}, 2)
            if i < len(m) and m.peekitem(i)[1][0] != points:
                self.moved += 1
        self.mono.add((system, key), x, points)

    # ---- taps ---------------------------------------------------------------------------
    def on_points(self, system, key, v, out, timed, case):
        if not out.ok:
            return
        lo, hi = {'tyrving': (0, 10 ** 9), 'qkids': (10, 100), 'sportshall': (0, 10 ** 9), 'bulgarian': (0, 150)}[system]
        self.feed(system, key, v, timed, out.value, lo, hi, case)
        if system == 'tyrving' and timed:
            g, ev, age, manual = key
            if (v * 10).denominator == 1:          # a tenths figure: hand-timed never scores more than electronic
                d = self.hand.setdefault((g, ev, age, v), {})
                d[manual] = out.value
                if len(d) == 2:
                    self.ctx.count('eval.tyrving-hand-vs-electronic')
                    if d[True] > d[False]:
                        self.ctx.violation('tyrving:hand-timed-scores-more-than-electronic', case, '<= %d' % d[False], d[True])
                    elif d[True] < d[False]:
                        self.ctx.nt(('hand', g, ev, age, v))
                    del self.hand[(g, ev, age, v)]

    def on_athlon(self, args, kwargs, out):
        a = list(args) + [None] * (5 - len(args))
        g, e, v = a[0], a[1], a[2]
        age = kwargs.get('age', a[3])
        esaa = bool(kwargs.get('esaa', a[4]))
        if not out.ok or out.value is None or not isinstance(e, str) or (g, e.upper()) not in self.live or not isinstance(v, (int, float)):
            return
        spelled = e
        e = e.upper()           # the library itself folds the case of the code when it looks the coefficients up
        n = round(v * 100)
        if abs(v * 100 - n) > 1e-6:
            return
        self.feed('athlon', (g, spelled, age, esaa), F(n, 100), AO.kind_of(e) == 't', out.value, 0, 10 ** 9,
                  {'system': 'athlon', 'g': g, 'e': spelled, 'v': v, 'age': age, 'esaa': esaa})

    def hungarian_timed(self, row):
        return row[4] < 0          # (perf + b)**2 with b < 0: a time; b > 0: distance / points

    def on_hungarian(self, args, kwargs, out):
        if len(args) < 4 or not out.ok:
            return
        g, io, ev, perf = args[:4]
        row = self.hrows.get((g, io, ev))
        if row is None or not isinstance(perf, (int, float)):
            return
        n = round(perf * 100)
        if abs(perf * 100 - n) > 1e-6:
            return
        timed = self.hungarian_timed(row)
        if timed and perf > -row[4]:
            self.ctx.count('unjudged.hungarian-slower-than-zero-point')
            return
        self.feed('hungarian', (g, io, ev), F(n, 100), timed, out.value, 0, 10 ** 9,
                  {'system': 'hungarian', 'g': g, 'io': io, 'ev': ev, 'perf': perf})

    @property
    def hrows(self):
        r = getattr(self, '_hrows', None)
        if r is None:
            r = self._hrows = {(x[0], x[1], x[2]): x for x in self.hm.FACTORS}
        return r


def windows(lo, hi, tier, rnd, centres=(), width=600, nrand=6):
    """marks to drive: whole range when small (or thorough and < 400k), else boundary + seeded windows"""
    if hi - lo <= (400000 if tier == 'thorough' else 6000):
        return range(lo, hi + 1)
    s = set()
    for c in list(centres) + [lo + width, hi - width] + [rnd.randrange(lo, hi) for _ in range(nrand if tier == 'quick' else nrand * 6)]:
        s.update(range(max(lo, c - width), min(hi, c + width) + 1))
    return sorted(s)


def jobs(mon):
    out = []
    for (g, e) in sorted(mon.live):
        out.append(('athlon', g, e))
    for r in mon.hm.FACTORS:
        out.append(('hungarian', r[0], r[1], r[2]))
    for j in c11.all_jobs(mon.c11):
        out.append(j)
    return out


def run_job(mon, ctx, job, rnd):
    tier = ctx.tier
    if job[0] == 'athlon':
        _, g, e = job
        f = mon.am.score
        zh = AO.zero_mark_hundredths(g, e, mon.live)
        k = AO.kind_of(e)
        top = zh + 60 if k == 't' else (1200 if k == 'j' else 11000)
        ages = [35, 50, 70, 90, 110]
        plain = list(windows(0, top, tier, rnd, centres=(zh,), width=400))
        # history hazard (shared coefficient rows, memo tables): even marks are scored before, odd marks
        # after the age-adjusted and ESAA calls, so every adjacent pair straddles them
        for n in plain:
            if n % 2 == 0:
                attach.call(f, g, e, n / 100)
        for age in ages:
            for n in windows(0, top, 'quick', rnd, centres=(zh,), width=400):
                attach.call(f, g, e, n / 100, age=age)
        if (g, e) == ('M', '800'):
            for n in windows(0, top, tier, rnd, centres=(zh, 20000), width=400):
                attach.call(f, g, e, n / 100, esaa=True)
        for n in plain:
            if n % 2:
                attach.call(f, g, e, n / 100)
        # other spellings of the code that the library scores as well (it folds the case for the coefficient lookup)
        for sp in (e.lower(), e.capitalize()):
            if sp != e:
                for n in windows(0, top, 'quick', rnd, centres=(zh,), width=150, nrand=2):
                    attach.call(f, g, sp, n / 100)
    elif job[0] == 'hungarian':
        _, g, io, ev = job
        f = mon.hm.score
        row = mon.hrows[(g, io, ev)]
        if mon.hungarian_timed(row):
            z = int(round(-row[4] * 100))
            lo, hi = int(z * 0.4), z
            cs = (z - 300, int(z * 0.7))
        else:
            # field / multi: from 0 to well beyond any real mark (1.5 x the mark worth ~1400 points)
            import math
            top = (math.sqrt((1400 - row[5]) / row[3]) - row[4]) * 1.5
            lo, hi = 0, int(top * 100)
            cs = (300, int(hi / 1.5))
            if hi > 2000000:       # multi-event points: integer grid
                for p in windows(0, int(top), tier, rnd, centres=(367, 1000, 5000), width=1500):
                    attach.call(f, g, io, ev, p)
                return
        for n in windows(lo, hi, tier, rnd, centres=cs, width=1000):
            attach.call(f, g, io, ev, n / 100)
    else:
        c11.RUNNERS[job[0]](mon.c11, ctx, job, rnd)
        if job[0] == 'tyrving':
            # dense adjacent-pair window around the base performance and the zero point
            _, g, ev, age = job
            kind, targs = mon.c11.tm._tyrvingTables[g][ev]
            b = int(round(J.tyr_base_perf(kind, targs, age) * 100))
            f = mon.c11.tm.tyrving_score
            lo, hi = int(b * 0.3), int(b * 2.0)
            for n in windows(lo, hi, tier, rnd, centres=(b,), width=300, nrand=3):
                attach.call(f, g, age, ev, n / 100)
                if kind == 'race' and n % 10 == 0:
                    attach.call(f, g, age, ev, '%d.%d' % (n // 100, (n % 100) // 10))
                    # numbers straight after a hand-timed text: the timing kind of one call must not colour the next
                    attach.call(f, g, age, ev, (n + 1) / 100)
                    attach.call(f, g, age, ev, n / 100)
                    attach.call(f, g, age, ev, '%d.%02d' % (n // 100, n % 100))


def run_shard(ctx, spec):
    core.import_athlib()
    mon = Monitor(ctx)
    rnd = random.Random(ctx.seed * 48271 + spec['i'])
    js = jobs(mon)[spec['i']::spec['n']]
    ctx.info['jobs'] = len(js)
    order = list(js)
    rnd.shuffle(order)
    for job in order:
        run_job(mon, ctx, job, rnd)
    ctx.count('eval.adjacent-pairs-compared', mon.mono.pairs)
    ctx.nt_bulk(mon.moved)
    ctx.info['keys'] = len(mon.mono.maps)
    ctx.require('eval.adjacent-pairs-compared', 10000)


def post_merge(merged, tier, seed):
    for s in ('athlon', 'hungarian', 'tyrving', 'qkids', 'sportshall', 'bulgarian'):
        merged['required']['eval.' + s] = 1000


def shards(tier, seed):
    n = 16 if tier == 'quick' else 64
    return [{'i': i, 'n': n} for i in range(n)]


def replay(ctx, cases):
    core.import_athlib()
    mon = Monitor(ctx)
    import athlib
    for c in cases:
        s = c.get('system') or c.get('sys')
        if 'worse_mark' in c:
            key = c['key']
            for m in (c['worse_mark'], c['better_mark']):
                if s == 'athlon':
                    kw = {}
                    if key[2] is not None:
                        kw['age'] = key[2]
                    if key[3]:
                        kw['esaa'] = True
                    o = attach.call(mon.am.score, key[0], key[1], m, **kw)
                elif s == 'hungarian':
                    o = attach.call(mon.hm.score, key[0], key[1], key[2], m)
                elif s == 'tyrving':
                    o = attach.call(mon.c11.tm.tyrving_score, key[0], key[2], key[1], ('%.1f' % m) if key[3] else m)
                elif s == 'qkids':
                    o = attach.call(mon.c11.qm.qkids_score, key[0], key[1], m)
                elif s == 'sportshall':
                    o = attach.call(mon.c11.sm.sportshall_score, key[0], str(m))
                else:
                    import re
                    mm = re.match(r'^(U\d+)([MFX])(.+)$', key[0])
                    o = attach.call(mon.c11.bm.score, mm.group(1), mm.group(2), mm.group(3), m)
                print('  %s %s mark %s -> %r' % (s, key, m, o))
        else:
            print('  case %s' % c)
            if s == 'hungarian':
                print('   ->', attach.call(mon.hm.score, c['g'], c['io'], c['ev'], c['perf']))
