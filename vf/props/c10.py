"""C10 - every valid event code can be sorted, measured and classified without error.

Monitors: recorders on discipline_sort_key, text_discipline_sort_key, sort_by_discipline,
get_distance, get_duration_event_time, unit_name, AgeGrader.event_code_to_kind.  Totality is
judged at every observed call on an accepted code; the ordering monitor works on the collected
(code -> key) map, the sorter monitor on the lists it sees.
"""
import random
import re
import sys

from .. import attach, core
from ..gen import relang

META = {
    'rule': ('codes from the syntax tree of the current PAT_EVENT_CODE and each family (ASCII and Unicode digit/whitespace '
             'variants), table keys and customary codes, each driven through the seven functions; ordering clauses judged on '
             'the list sorted by the real key (category and distance sequences monotone == all pairs) plus explicit pairs for '
             'text-vs-tuple order; seeded lists with repeated / missing disciplines for the sorter. distinct_nontrivial = '
             'distinct accepted codes on which all seven functions were observed + distinct ordered pairs compared for the '
             'text clause'),
    'assumptions': ['categories for the ordering clause come from the real family patterns; yard-denominated codes and relay '
                    'pairs whose leg and total distances disagree are unspecified',
                    'codes with characters that upper() changes in length are not generated'],
}
FIELD_ORDER = ['HJ', 'PV', 'LJ', 'TJ', 'SP', 'DT', 'HT', 'JT']


class Monitor(object):
    def __init__(self, ctx):
        self.ctx = ctx
        self.u = sys.modules['athlib.utils']
        cm = sys.modules['athlib.codes']
        self.P = {k: v for k, v in vars(cm).items() if k.startswith('PAT_')}
        self.check = self.u.check_event_code
        self.keys = {}
        self.funcs_seen = {}
        for name in ('discipline_sort_key', 'text_discipline_sort_key', 'get_distance', 'get_duration_event_time'):
            attach.monitor(self.u, name, self.make_total(name))
        attach.monitor(self.u, 'sort_by_discipline', self.on_sorter)
        am = sys.modules['athlib.athlon_score']
        attach.monitor(am, 'unit_name', self.make_total('unit_name'))
        ag = sys.modules['athlib.wma.agegrader'].AgeGrader
        raw = ag.__dict__['event_code_to_kind'].__func__
        on = self.make_total('event_code_to_kind')

        def wrapped(code):
            try:
                r = raw(code)
            except Exception as e:
                on((code,), {}, attach.Outcome('raise', e))
                raise
            on((code,), {}, attach.Outcome('return', r))
            return r
        ag.event_code_to_kind = staticmethod(wrapped)
        self.kind = ag.event_code_to_kind
        self.unit_name = am.unit_name
        import athlib
        assert athlib.discipline_sort_key is self.u.discipline_sort_key

    def family(self, code):
        for f in ('PAT_THROWS', 'PAT_HURDLES', 'PAT_JUMPS', 'PAT_RELAYS', 'PAT_TRACK', 'PAT_ROAD', 'PAT_MULTI',
                  'PAT_RACES_FOR_DISTANCE', 'PAT_HIGHSCORING_EVENT', 'PAT_LOWSCORING_EVENT'):
            if self.P[f].match(code):
                return f[4:]
        return 'OTHER'

    def mech(self, fn, code, exc):
        """mechanism key: function + exception + predicate on the code"""
        fam = self.family(code)
        s = code.strip()
        pred = fam
        if fn == 'discipline_sort_key':
            if fam == 'RELAYS':
                pred = 'relay-leg-not-a-plain-integer' if not re.match(r'^\d{1,2}[xX]\d+$', s) else 'relay'
            elif fam == 'TRACK':
                pred = 'track-code-without-leading-distance' if not re.match(r'^\d', s) or re.match(r'^[2345][mM][tT]$', s) else 'track'
            elif fam == 'THROWS':
                pred = 'throw-code-not-in-FIELD_SORT_ORDER:' + re.sub(r'[^A-Z].*$', '', s.upper())[:4]
        elif fn == 'get_distance' and fam == 'RELAYS':
            pred = 'relay-medley-name:' + re.sub(r'^\d+[xX]', '', s.upper())
        return 'totality:%s:%s:%s' % (fn, type(exc).__name__, pred)

    def make_total(self, name):
        def on(args, kwargs, out):
            ctx = self.ctx
            ctx.count('eval.' + name)
            code = args[0] if args else None
            if not isinstance(code, str) or self.check(code) is None:
                ctx.count('unjudged.not-an-accepted-code')
                return
            if not out.ok:
                ctx.violation(self.mech(name, code, out.value), {'fn': name, 'code': code}, 'a value', repr(out))
                return
            self.funcs_seen.setdefault(code, set()).add(name)
            if name == 'discipline_sort_key':
                k = out.value
                if not (isinstance(k, tuple) and len(k) == 3 and isinstance(k[0], int) and isinstance(k[1], int) and isinstance(k[2], str)):
                    ctx.violation('key:malformed', {'fn': name, 'code': code}, '(int, int, str)', repr(k))
                else:
                    self.keys[code] = k
            elif name == 'get_distance':
                self.judge_relay_distance(code, out.value)
        return on

    def judge_relay_distance(self, code, d):
        m = re.match(r'^(\d{1,2})[xX]((\d+(\.\d+)?)[hHMK]?)$', code)
        if not m:
            return
        self.ctx.count('judged.relay-distance')
        mi = re.match(r'^([0-9]+)([HMK]?)$', m.group(2).upper())
        if mi:
            # a whole-number leg: its distance is known without asking the code under test (metres, hurdles over that many
            # metres, kilometres, miles of 1609 m) - however many digits it has
            want = int(m.group(1)) * int(mi.group(1)) * {'': 1, 'H': 1, 'K': 1000, 'M': 1609}[mi.group(2)]
        else:
            leg = attach.call(attach.original(self.u.get_distance), m.group(2).upper())
            if not leg.ok or leg.value is None:
                return
            want = int(m.group(1)) * leg.value
        if d != want:
            self.ctx.violation('relay-distance:not-legs-times-leg', {'fn': 'get_distance', 'code': code}, want, d)
        else:
            self.ctx.nt(('rd', code))

    # ---- ordering ---------------------------------------------------------------------------
    def category(self, code):
        f = self.family(code)
        return {'THROWS': 4, 'HURDLES': 2, 'JUMPS': 3, 'RELAYS': 5, 'TRACK': 1}.get(f, 6)

    def metres(self, code):
        """leading distance for metre-denominated track/hurdles codes, else None (unspecified)"""
        s = code.strip()
        m = re.match(r'^([2345])[mM][tT]$', s)
        if m:
            return 1609 * int(m.group(1))      # miles on the track
        m = re.match(r'^(\d+)\s*(.*)$', s)
        if m and not re.search(r'[yY]\s*$', s) and not re.match(r'^\d?MILE', s):
            try:
                return int(m.group(1))
            except ValueError:
                return None
        m = re.match(r'^(\d?)MILE', s)
        if m:
            return 1609 * int(m.group(1) or 1)
        return None

    def check_order(self):
        ctx = self.ctx
        items = sorted(self.keys.items(), key=lambda kv: kv[1])
        # categories: the real key's first component must equal the family category
        for code, k in items:
            ctx.count('eval.order-category')
            want = self.category(code)
            if k[0] != want:
                ctx.violation('order:category:%s-sorted-as-%d' % (self.family(code), k[0]), {'code': code, 'key': list(k)}, want, k[0])
        # by distance inside track / hurdles; relays by leg
        for cat in (1, 2):
            prev = None
            for code, k in items:
                if k[0] != cat or self.category(code) != cat:
                    continue
                d = self.metres(code)
                if d is None:
                    ctx.count('unspecified.order-non-metre-code')
                    continue
                ctx.count('eval.order-distance')
                if prev is not None and d < prev[1]:
                    ctx.violation('order:distance:category-%d' % cat, {'first': prev[0], 'then': code}, 'non-decreasing distance', [prev[1], d])
                prev = (code, d)
        rel = [(c, k) for c, k in items if k[0] == 5 and re.match(r'^\d{1,2}[xX]\d+$', c)]
        for i in range(len(rel) - 1):
            (a, ka), (b, kb) = rel[i], rel[i + 1]
            ma, mb = re.match(r'^(\d+)[xX](\d+)$', a), re.match(r'^(\d+)[xX](\d+)$', b)
            la, lb = int(ma.group(2)), int(mb.group(2))
            ta, tb = la * int(ma.group(1)), lb * int(mb.group(1))
            if (la < lb) != (ta < tb) or la == lb:
                ctx.count('unspecified.order-relay-pair')
                continue
            ctx.count('eval.order-relay')
            if la > lb:
                ctx.violation('order:relays-by-distance', {'first': a, 'then': b}, 'shorter first', [la, lb])
        # field order
        pos = {}
        for code, k in items:
            if k[0] in (3, 4):
                base = re.sub(r'[^A-Z].*$', '', code.strip().upper())
                if base in FIELD_ORDER:
                    pos.setdefault(base, set()).add((k[0], k[1]))
        seq = [(b, sorted(pos[b])) for b in FIELD_ORDER if b in pos]
        for i in range(len(seq) - 1):
            ctx.count('eval.order-field')
            if max(seq[i][1]) >= min(seq[i + 1][1]):
                ctx.violation('order:field-events:%s-not-before-%s' % (seq[i][0], seq[i + 1][0]), {'a': seq[i][0], 'b': seq[i + 1][0]},
                              'HJ PV LJ TJ SP DT HT JT', [seq[i][1][:2], seq[i + 1][1][:2]])

    def check_text_pairs(self, rnd, n):
        ctx = self.ctx
        codes = [c for c, k in self.keys.items() if k[1] < 100000]
        raw_text = attach.original(self.u.text_discipline_sort_key)
        texts = {}
        for c in codes:
            o = attach.call(raw_text, c)
            if o.ok:
                texts[c] = o.value
        codes = [c for c in codes if c in texts]
        if len(codes) < 2:
            return
        for _ in range(n):
            a, b = rnd.choice(codes), rnd.choice(codes)
            ka, kb = self.keys[a], self.keys[b]
            ctx.count('eval.text-pair')
            t = (texts[a] > texts[b]) - (texts[a] < texts[b])
            k = (ka > kb) - (ka < kb)
            if t != k:
                ctx.violation('text-key:orders-differently-from-tuple-key', {'a': a, 'b': b}, 'same order', [texts[a], texts[b], list(ka), list(kb)])
            elif a != b:
                ctx.nt(('tp', a, b))

    # ---- sorter ------------------------------------------------------------------------------
    def on_sorter(self, args, kwargs, out):
        ctx = self.ctx
        ctx.count('eval.sort_by_discipline')
        stuff = args[0]
        attr = kwargs.get('attr', args[1] if len(args) > 1 else 'discipline')

        def disc(t):
            return t.get(attr) if isinstance(t, dict) else getattr(t, attr, None)
        ds = [disc(t) for t in stuff]
        if any(d is not None and d != '' and (not isinstance(d, str) or self.check(d) is None) for d in ds):
            ctx.count('unjudged.sorter-with-non-codes')
            return
        case = {'fn': 'sort_by_discipline', 'disciplines': ds}
        if not out.ok:
            exc = out.value
            bad = None
            rawk = attach.original(self.u.discipline_sort_key)
            for d in ds:
                if d and not attach.call(rawk, d).ok:
                    bad = d
                    break
            key = self.mech('discipline_sort_key', bad, exc).replace('totality:discipline_sort_key', 'totality:sort_by_discipline') if bad else \
                'totality:sort_by_discipline:%s' % type(exc).__name__
            ctx.violation(key, case, 'sorted list', repr(out))
            return
        res = out.value
        if sorted(map(id, res)) != sorted(map(id, stuff)):
            ctx.violation('sorter:not-a-permutation', case, 'permutation', [disc(t) for t in res])
            return
        rawk = attach.original(self.u.discipline_sort_key)
        ks = [rawk(disc(t)) for t in res]
        if any(ks[i] > ks[i + 1] for i in range(len(ks) - 1)):
            ctx.violation('sorter:keys-not-non-decreasing', case, 'sorted', [disc(t) for t in res])
            return
        # stability: equal keys keep input order
        order = {id(t): i for i, t in enumerate(stuff)}
        for i in range(len(res) - 1):
            if ks[i] == ks[i + 1] and order[id(res[i])] > order[id(res[i + 1])]:
                ctx.violation('sorter:not-stable', case, 'stable', [disc(t) for t in res])
                return
        ctx.count('judged.sorter')
        ctx.nt(('sl', tuple(ds)))


class Obj(object):
    pass


class Slotted(object):
    __slots__ = ('discipline', 'event', 'n')


class WithProperty(object):
    def __init__(self, d):
        self._d = d

    @property
    def discipline(self):
        return self._d

    @property
    def event(self):
        return self._d


class ClassLevel(object):
    discipline = '400'
    event = '400'


import collections
Row = collections.namedtuple('Row', 'discipline event n')


CUSTOMARY = ['100', '200', '400', '800', '1500', '3000', '5000', '10000', 'MILE', '2MILE', '100H', '110H', '400H', '3000SC', '2000SC', 'SC', 'SH', 'LH',
             '2MT', '3MT', 'HJ', 'PV', 'LJ', 'TJ', 'SP', 'DT', 'HT', 'JT', 'WT', 'SHJ', 'SLJ', 'STJ', 'SP7.26K', 'DT1.5K', 'JT800', 'HT4K', 'TART', 'CHT', 'OHT',
             'CT', 'ST', 'GDT', 'BT', 'SWT', 'OT', 'SSP', 'SDT', 'SJT', 'SBT', 'H1', 'H9', 'L1', 'L9', 'h3', 'l3', '4x100', '4x400', '4x200', '3x800',
             '4xRELAY', '4x100H', '6x5K', '6xSDMR', '4xDMR', '4xSMR', '4xSSMR', '4xSWR', '12x200H', '4x1.5K', '4x100M', 'DEC', 'HEP', 'PEN', 'PENWT',
             'MAR', 'HM', 'XC', '5K', '10K', '5M', '10M', '20KW', '3000W', '5KW', 'T30', 'T60', '24HR', '1HW', 'SPB', 'BAL', '60', '60H', '75', '70H',
             '80H76.2cm8m', '100H84cm8.5m', '100Y', '440Y', '100W', '100 H', '60 h', '٣00', '100y']


def run_shard(ctx, spec):
    core.import_athlib()
    mon = Monitor(ctx)
    rnd = random.Random(ctx.seed * 31337 + spec['i'])
    u = mon.u
    per = 1500 if ctx.tier == 'quick' else 40000
    codes = []
    fams = ['PAT_EVENT_CODE', 'PAT_TRACK', 'PAT_HURDLES', 'PAT_ROAD', 'PAT_RELAYS', 'PAT_JUMPS', 'PAT_THROWS', 'PAT_MULTI',
            'PAT_RACES_FOR_DISTANCE', 'PAT_HIGHSCORING_EVENT', 'PAT_LOWSCORING_EVENT']
    for fi, fam in enumerate(fams):
        for ascii_only in ((True,) if ctx.tier == 'quick' and spec['i'] % 2 else (True, False)):
            g = relang.Gen(mon.P[fam], seed=ctx.seed * 17 + fi + 100 * spec['i'] + ascii_only, ascii_only=ascii_only, maxrep=3)
            codes.extend(g.many(per // (1 if fam == 'PAT_EVENT_CODE' else 3)))
    if spec['i'] % 4 == 2:
        # the language has no length bound: digit and blank runs of 45 / 130 / 700 (a zero-padded field, a format width, a recursion)
        for fi, fam in enumerate(fams[1:]):
            g = relang.Gen(mon.P[fam], seed=ctx.seed * 19 + fi + spec['i'], ascii_only=True, maxrep=1, long_repeats=(45, 130, 700))
            longs = [c for c in g.many(40) if len(c) > 40]
            ctx.count('eval.codes-longer-than-40-characters', len(longs))
            codes.extend(longs)
    if spec['i'] == 0:
        codes.extend(CUSTOMARY)
        from .c07 import table_keys
        codes.extend(table_keys())
    # '$' also matches before a final newline, so a code read with readlines() and never stripped is an accepted code too
    codes.extend([c + '\n' for c in codes[::4] if not c.endswith('\n')])
    codes = [c for c in dict.fromkeys(codes) if mon.check(c) is not None and len(c.upper()) == len(c)]
    ctx.count('eval.codes-with-final-newline', sum(1 for c in codes if c.endswith('\n')))
    full = {'discipline_sort_key', 'text_discipline_sort_key', 'get_distance', 'get_duration_event_time', 'unit_name', 'event_code_to_kind'}
    for c in codes:
        attach.call(u.discipline_sort_key, c)
        attach.call(u.text_discipline_sort_key, c)
        attach.call(u.get_distance, c)
        attach.call(u.get_duration_event_time, c)
        attach.call(mon.unit_name, c)
        attach.call(mon.kind, c)
        if mon.funcs_seen.get(c) == full:
            if ctx.nt(('all', c)):
                ctx.count('judged.total-on-all-six')
            ctx.sample('total:' + mon.family(c), {'code': c, 'key': list(mon.keys.get(c, ()))}, 1)
    mon.check_order()
    mon.check_text_pairs(rnd, 60000 if ctx.tier == 'quick' else 1500000)
    # sorter: lists with repeated, missing and mixed dict/object items
    ok_codes = [c for c in codes if c in mon.keys]
    pool = ok_codes if rnd.random() < 2 else codes
    nlists = 300 if ctx.tier == 'quick' else 6000
    for li in range(nlists):
        src = codes if li % 10 == 0 else ok_codes or codes
        L = []
        A = 'discipline' if li % 5 else 'event'          # the attribute / key name is a parameter of the sorter
        for _ in range(rnd.randrange(0, 14)):
            r = rnd.random()
            d = None if r < 0.08 else '' if r < 0.1 else rnd.choice(src)
            if rnd.random() < 0.3 and L:
                d = (L[-1].get(A) if isinstance(L[-1], dict) else getattr(L[-1], A, None))
            if rnd.random() < 0.5:
                item = {A: d, 'n': len(L)} if rnd.random() < 0.9 else {'n': len(L)}
                if A != 'discipline' and rnd.random() < 0.5:
                    item['discipline'] = rnd.choice(src)          # a decoy under the default name
            else:
                k = rnd.random()
                if k < 0.55:
                    item = Obj()
                    if rnd.random() < 0.9:
                        setattr(item, A, d)
                elif k < 0.7:
                    item = Slotted()          # no instance __dict__
                    setattr(item, A, d)
                elif k < 0.82:
                    item = WithProperty(d)    # the discipline is computed
                elif k < 0.9:
                    item = Row(d, d, len(L))  # a record
                else:
                    item = ClassLevel()       # a class-level default
                    if '400' not in src and d is not None:
                        setattr(item, A, d)
            L.append(item)
        if A == 'discipline':
            attach.call(u.sort_by_discipline, L)
        elif li % 2:
            attach.call(u.sort_by_discipline, L, A)
        else:
            attach.call(u.sort_by_discipline, L, attr=A)
    ctx.require('judged.total-on-all-six', 300)
    ctx.require('judged.sorter', 50)
    ctx.require('eval.text-pair', 1000)
    ctx.require('eval.order-distance', 50)


def shards(tier, seed):
    return [{'i': i, 'n': 16} for i in range(16)]


def replay(ctx, cases):
    core.import_athlib()
    mon = Monitor(ctx)
    for c in cases:
        if 'code' in c and 'fn' in c:
            fn = {'unit_name': mon.unit_name, 'event_code_to_kind': mon.kind}.get(c['fn']) or getattr(mon.u, c['fn'])
            print('  %s(%r) -> %r' % (c['fn'], c['code'], attach.call(fn, c['code'])))
        elif 'disciplines' in c:
            L = [{'discipline': d} for d in c['disciplines']]
            print('  sort_by_discipline(%r) -> %r' % (c['disciplines'], attach.call(mon.u.sort_by_discipline, L)))
        else:
            for k in ('code', 'a', 'b', 'first', 'then'):
                if k in c:
                    print('  %s: key(%r) -> %r' % (k, c[k], attach.call(mon.u.discipline_sort_key, c[k])))
    mon.check_order()
