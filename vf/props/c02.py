"""C02 - high jump: only rule-conforming trials are recorded; refusals change nothing.

Monitor (vf/hj.py): a recorder wrapped around add_jumper, set_bar_height, cleared, failed, passed
and retired of the real class takes the observable snapshot before and after every call; refusals
must leave it identical and raise RuleViolation; acceptance / refusal is compared with a partial
rule book computed from the shadow log of accepted calls; state order and structural invariants
are checked after every accepted call.
"""
import random

from .. import core, hj

META = {
    'rule': ('bounded breadth-first exploration of the REAL object: at every distinct reachable state (de-duplicated on the full '
             'snapshot minus the action log, plus the shadow phase) the whole alphabet {add (new / duplicate bib), bar (higher / '
             'equal / lower / below the tied height; first bar also 0 and negative), cleared, failed, passed, retired} x every bib '
             'is applied, legal or not; plus seeded random walks with 1-4 athletes and seeded random rule-conforming histories (up to 4 athletes, 4+3 heights) with every other call of the alphabet probed on a clone at every step. distinct_nontrivial = distinct reachable '
             'states expanded + distinct (state name, call kind, refusal reason) classes refused without change'),
    'assumptions': ['unspecified (recorded, only atomicity / exception class / invariants / state order judged): a jump-off among '
                    'athletes with no clearance, a pass inside a jump-off, a jump-off bar moved before every participant acted',
                    'unknown bibs (KeyError) and DQ/DNS athletes are outside the stated alphabet'],
}


def run_shard(ctx, spec):
    core.import_athlib()
    mon = hj.Monitor(ctx, rules=True, final=False, replay=False)
    rnd = random.Random(ctx.seed * 911 + spec['i'])
    ex = hj.Explorer(mon, rnd)
    ex.fine_bars = bool(spec.get('fine'))
    ex.float_heights = bool(spec.get('float'))
    hj.KW['on'] = bool(spec.get('kw'))
    if spec.get('kw'):
        ctx.count('eval.shards-with-start-list-details')
    if spec.get('bibs'):
        ex.use_bibs(spec['bibs'])
        ctx.count('eval.shards-with-bibs-%s' % spec['bibs'])
    if spec['w'] == 'bfs':
        ex.bfs(spec['nj'], spec['reg'], spec['jo'], part=spec['i'], nparts=spec['n'], split_depth=spec.get('split', 3),
               max_states=spec.get('max_states'))
    elif spec['w'] == 'jumpoff':
        # long scripted jump-offs (knock-out patterns over 3-6 rounds); after every round everybody who is out tries to jump
        for k in range(spec['walks']):
            ex.jumpoff_scenario(rnd.choice([2, 3, 3, 4, 4, 5]), max_jo=rnd.choice([3, 4, 5, 6]), scripted=True, probe_outsiders=True,
                                passes=(k % 5 == 4))
    elif spec['w'] == 'probe':
        for k in range(spec['walks']):
            ex.walk_probe(rnd.choice([2, 2, 3, 3, 4, 5]), maxlen=70, jumpoff_prefix=bool(spec.get('jo')))
        ctx.count('eval.probed-calls', ex.probed)
    else:
        for k in range(spec['walks']):
            ex.walk(rnd.choice([1, 2, 2, 3, 3, 4, 5, 6]), maxlen=rnd.choice([120, 120, 260]), max_reg=rnd.choice([4, 4, 8]))
    ctx.nt_bulk(ex.states)
    ctx.info['states'] = ex.states
    ctx.info['transitions'] = ex.transitions
    ctx.info['refused_calls'] = ex.refused
    ctx.count('eval.states-expanded', ex.states)
    ctx.require('judged.refusal', 50)
    ctx.require('judged.rule-decision', 200)


def shards(tier, seed):
    if tier == 'quick':
        s = [{'w': 'bfs', 'nj': 2, 'reg': 2, 'jo': 1, 'i': i, 'n': 10} for i in range(10)]
        s += [{'w': 'bfs', 'nj': 1, 'reg': 3, 'jo': 1, 'i': 0, 'n': 1}]
        s += [{'w': 'bfs', 'nj': 2, 'reg': 1, 'jo': 2, 'i': 0, 'n': 1}]          # two jump-off heights, full alphabet
        s += [{'w': 'bfs', 'nj': 3, 'reg': 1, 'jo': 1, 'i': 0, 'n': 1}]
        s += [{'w': 'bfs', 'nj': 2, 'reg': 2, 'jo': 0, 'i': 0, 'n': 1, 'fine': True}]   # with sub-centimetre rises of the bar
        s += [{'w': 'walk', 'walks': 60, 'i': 100 + i} for i in range(5)]
        s += [{'w': 'walk', 'walks': 80, 'i': 120 + i, 'float': True} for i in range(3)]
        s += [{'w': 'jumpoff', 'walks': 500, 'i': 140 + i} for i in range(4)]
        s += [{'w': 'walk', 'walks': 80, 'i': 130, 'bibs': 'int0'}, {'w': 'walk', 'walks': 80, 'i': 131, 'bibs': 'zeros'},
              {'w': 'bfs', 'nj': 2, 'reg': 1, 'jo': 1, 'i': 0, 'n': 1, 'bibs': 'int0'}]
        s += [{'w': 'probe', 'walks': 300 if i % 2 == 0 else 900, 'i': 200 + i, 'jo': i % 2} for i in range(16)]
        s += [{'w': 'walk', 'walks': 60, 'i': 230, 'kw': True}, {'w': 'bfs', 'nj': 2, 'reg': 1, 'jo': 1, 'i': 0, 'n': 1, 'kw': True},
              {'w': 'jumpoff', 'walks': 300, 'i': 231, 'kw': True}]
        return s
    # (2 athletes, 2+2) is explored completely (374 k distinct states); the deeper / wider spaces are cut per shard
    s = [{'w': 'bfs', 'nj': 2, 'reg': 2, 'jo': 2, 'i': i, 'n': 32, 'split': 4} for i in range(32)]
    s += [{'w': 'bfs', 'nj': 2, 'reg': 3, 'jo': 2, 'i': i, 'n': 32, 'split': 5, 'max_states': 120000} for i in range(32)]
    s += [{'w': 'bfs', 'nj': 3, 'reg': 2, 'jo': 1, 'i': i, 'n': 32, 'split': 5, 'max_states': 120000} for i in range(32)]
    s += [{'w': 'bfs', 'nj': 1, 'reg': 4, 'jo': 1, 'i': 0, 'n': 1}]
    s += [{'w': 'bfs', 'nj': 2, 'reg': 1, 'jo': 3, 'i': i, 'n': 16, 'split': 4} for i in range(16)]
    s += [{'w': 'bfs', 'nj': 3, 'reg': 1, 'jo': 2, 'i': i, 'n': 16, 'split': 4} for i in range(16)]
    s += [{'w': 'bfs', 'nj': 2, 'reg': 2, 'jo': 1, 'i': i, 'n': 8, 'split': 3, 'fine': True} for i in range(8)]
    s += [{'w': 'walk', 'walks': 1250, 'i': 100 + i} for i in range(16)]
    s += [{'w': 'walk', 'walks': 1250, 'i': 150 + i, 'float': True} for i in range(8)]
    s += [{'w': 'walk', 'walks': 1250, 'i': 160 + i, 'bibs': ('int0', 'zeros')[i % 2]} for i in range(4)]
    s += [{'w': 'jumpoff', 'walks': 5000, 'i': 170 + i} for i in range(16)]
    s += [{'w': 'bfs', 'nj': 2, 'reg': 2, 'jo': 1, 'i': i, 'n': 4, 'bibs': 'int0'} for i in range(4)]
    s += [{'w': 'probe', 'walks': 6000, 'i': 200 + i, 'jo': i % 2} for i in range(16)]
    s += [{'w': 'walk', 'walks': 1250, 'i': 230 + i, 'kw': True} for i in range(2)] + [{'w': 'jumpoff', 'walks': 3000, 'i': 234 + i, 'kw': True} for i in range(2)]
    return s


def replay(ctx, cases):
    core.import_athlib()
    mon = hj.Monitor(ctx, rules=True, final=True, replay=False)
    from decimal import Decimal
    for c in cases:
        hj.KW['on'] = bool(c.get('jumper_kwargs'))
        hj.KW['bibs'] = []
        comp = mon.H()
        for m, a in c['history'] + [c['call']]:
            try:
                if m == 'read':
                    hj.READERS[a](comp)
                elif m == 'add_jumper':
                    hj.add(comp, a)
                elif m == 'set_bar_height':
                    comp.set_bar_height(Decimal(a))
                else:
                    getattr(comp, m)(a)
                r = 'accepted'
            except Exception as e:
                r = 'raise %s(%s)' % (type(e).__name__, e)
            print('   %s(%s) -> %s   state=%s' % (m, a, r, comp.state))
        print('   cards:', comp.to_matrix(['bib']))
