"""pytest plugin: runs the repository's own test-suite with the monitors attached (a realistic extra
workload and a false-alarm probe: a monitor that fires here is either too strict or has found a defect
the tests do not assert).  Usage: selftest/suite_under_monitors.sh"""
import json
import os
import sys

from vf import core

CTX = {}


def pytest_sessionstart(session):
    core.import_athlib()
    from vf import hj
    from vf.props import c01, c04, c06, c07, c09, c10, c11, c12, c13, c14, c15, c17
    for name, make in (('C01', lambda c: c01.Monitor(c)), ('C09', lambda c: c09.Monitor(c)), ('C06', lambda c: c06.Monitor(c)),
                       ('C07', lambda c: c07.Monitor(c)), ('C10', lambda c: c10.Monitor(c)), ('C11', lambda c: c11.Monitor(c)),
                       ('C12', lambda c: c12.Monitor(c)), ('C13', lambda c: c13.Monitor(c)), ('C14', lambda c: c14.Monitor(c)),
                       ('C15', lambda c: c15.Monitor(c)), ('C17', lambda c: c17.Monitor(c)),
                       ('C02-C03-C08', lambda c: hj.Monitor(c, rules=True, final=True, replay=True, replay_every=1)),
                       ('C04', lambda c: c04.Monitor(c))):
        ctx = core.Ctx(name, 'quick', 0)
        try:
            make(ctx)
            CTX[name] = ctx
        except Exception as e:           # a monitor that cannot attach must not break the suite
            sys.stderr.write('monitor %s not attached: %r\n' % (name, e))


def pytest_sessionfinish(session, exitstatus):
    out = {}
    for name, ctx in CTX.items():
        out[name] = {'evaluations': int(sum(v for k, v in ctx.counters.items() if k.startswith('eval.'))),
                     'judged': {k: v for k, v in ctx.counters.items() if k.startswith('judged')},
                     'violations': {k: {'count': ctx.wcount[k], 'witness': ctx.witness[k][:2]} for k in ctx.wcount}}
    path = os.environ.get('VF_SUITE_REPORT', os.path.join(core.VERIF, 'logs', 'suite_under_monitors.json'))
    os.makedirs(os.path.dirname(path), exist_ok=True)
    with open(path, 'w') as f:
        json.dump(out, f, indent=1, default=repr)
