"""What did the monitored workload actually execute?  Line coverage of the anchored functions.

Not a deciding step: a report, written into the evidence file, of which lines of the functions a
property is anchored in (anchors.json, resolved from the line ranges in properties.jsonl) were
executed while the monitors were attached - and, more usefully, which were not, because a monitor
says nothing about a path its workload never drives.  Uses sys.monitoring (3.12): a PY_START
callback switches LINE events on for code objects that live under <repo>/athlib only, and every
callback returns DISABLE, so each location costs one event for the life of the process.
"""
import json
import os
import sys
import types

from . import core

_seen = set()          # (relative file, line)
_on = False

EXTRA = {
    # C18's anchors name whole files; these are the Python sides of the ported pairs
    'C18': [['athlib/utils.py', 'round_up_str_num'], ['athlib/utils.py', 'format_seconds_as_time'],
            ['athlib/utils.py', 'parse_hms'], ['athlib/utils.py', 'is_hand_timing'],
            ['athlib/utils.py', 'normalize_event_code'], ['athlib/utils.py', 'str2num'],
            ['athlib/tyrving_score.py', '*'], ['athlib/qkids_score.py', '*']],
}


def start():
    global _on
    mon = getattr(sys, 'monitoring', None)
    if mon is None or os.environ.get('VERIF_COVER') == '0':
        return False
    tool = mon.COVERAGE_ID
    try:
        mon.use_tool_id(tool, 'vf.cover')
    except ValueError:
        return False
    root = os.path.join(core.REPO, 'athlib') + os.sep
    n = len(core.REPO) + 1
    LINE = mon.events.LINE
    DISABLE = mon.DISABLE

    def on_start(code, offset):
        f = code.co_filename
        # module bodies are left alone: a table module is one code object of thousands of lines, and every DISABLE
        # re-instruments the whole object (quadratic: 30 s per interpreter); only functions are reported anyway
        if f.startswith(root) and code.co_name != '<module>':
            try:
                mon.set_local_events(tool, code, LINE)
            except Exception:
                pass
        return DISABLE

    def on_line(code, line):
        _seen.add((code.co_filename[n:], line))
        return DISABLE

    mon.register_callback(tool, mon.events.PY_START, on_start)
    mon.register_callback(tool, LINE, on_line)
    mon.set_events(tool, mon.events.PY_START)
    _on = True
    return True


def collected():
    """{relative file: sorted lines} executed so far (None if coverage is off)."""
    if not _on:
        return None
    out = {}
    for f, l in _seen:
        out.setdefault(f, []).append(l)
    return {f: sorted(v) for f, v in out.items()}


def merge_into(acc, one):
    for f, lines in (one or {}).items():
        acc.setdefault(f, set()).update(lines)


def _codes(co):
    yield co
    for c in co.co_consts:
        if isinstance(c, types.CodeType):
            for x in _codes(c):
                yield x


def _docstring_lines(path):
    import ast
    out = set()
    try:
        tree = ast.parse(open(path, encoding='utf-8').read())
    except Exception:
        return out
    for n in ast.walk(tree):
        if isinstance(n, (ast.FunctionDef, ast.AsyncFunctionDef, ast.ClassDef, ast.Module)) and n.body:
            b = n.body[0]
            if isinstance(b, ast.Expr) and isinstance(getattr(b, 'value', None), ast.Constant) and isinstance(b.value.value, str):
                out.update(range(b.lineno, b.end_lineno + 1))
    return out


def report(prop, covered):
    """Coverage of the property's anchored functions on the current tree."""
    try:
        anchors = json.load(open(os.path.join(core.VERIF, 'anchors.json')))['functions'].get(prop, [])
    except Exception:
        anchors = []
    anchors = anchors + EXTRA.get(prop, [])
    if not anchors or covered is None:
        return None
    byfile = {}
    for f, q in anchors:
        byfile.setdefault(f, set()).add(q)
    funcs = {}
    tot = hit = 0
    for f, names in sorted(byfile.items()):
        path = os.path.join(core.REPO, f)
        try:
            top = compile(open(path, encoding='utf-8').read(), path, 'exec')
        except Exception:
            continue
        doc = _docstring_lines(path)
        got = covered.get(f, set())
        for co in _codes(top):
            q = co.co_qualname
            if q == '<module>':
                continue
            owner = None
            for nm in names:
                if nm == '*' or q == nm or q.startswith(nm + '.<locals>.'):
                    owner = q if nm == '*' else nm
                    break
            if owner is None:
                continue
            lines = {l for _, _, l in co.co_lines() if l} - {co.co_firstlineno} - doc
            if not lines:
                continue
            d = funcs.setdefault('%s:%s' % (f, owner), {'lines': set(), 'hit': set()})
            d['lines'] |= lines
            d['hit'] |= lines & got
    out = {'functions': {}, 'unreached_functions': []}
    for k, d in sorted(funcs.items()):
        tot += len(d['lines'])
        hit += len(d['hit'])
        miss = sorted(d['lines'] - d['hit'])
        out['functions'][k] = {'executable_lines': len(d['lines']), 'executed': len(d['hit']), 'not_executed_lines': miss}
        if not d['hit']:
            out['unreached_functions'].append(k)
    out['anchored_lines'] = tot
    out['anchored_lines_executed'] = hit
    out['note'] = ('lines of the anchored functions (anchors.json) executed while the monitors were attached; '
                   'line numbers are those of the tree under test; a line not executed is a path this run says nothing about')
    return out
