"""Core of the runtime-monitoring framework: run context, counters, verdicts, evidence.

A check is a set of shards; every shard runs in its own interpreter (vf.worker), attaches
its monitors to the real athlib code imported from the repository under test, drives a
workload and returns a JSON-serialisable ``Ctx`` dump.  The parent merges the dumps,
classifies witnesses against known_findings.json and writes the evidence file.

Verdicts are three-valued: exit 0 (held on what was observed), 1 (VIOLATION), 2
(INCONCLUSIVE: a deciding monitor was under-exercised or a shard watchdog fired).
"""
import collections
import hashlib
import json
import os
import sys
import time

VERIF = os.path.dirname(os.path.dirname(os.path.abspath(__file__)))
REPO = os.path.abspath(os.environ.get('VERIF_REPO', '/repo'))
MAX_WITNESS_PER_KEY = 12
MAX_SAMPLES_PER_KIND = 4


def import_athlib():
    """Import athlib from the repository under test (working tree, no build step)."""
    if sys.path[0] != REPO:
        sys.path.insert(0, REPO)
    import athlib
    f = os.path.abspath(athlib.__file__)
    if not f.startswith(REPO + os.sep):
        raise RuntimeError('athlib imported from %s, not from %s' % (f, REPO))
    return athlib


def jsonable(x, depth=0):
    """Best-effort conversion of a case description to JSON."""
    from decimal import Decimal
    import datetime
    if depth > 8:
        return repr(x)
    if x is None or isinstance(x, (bool, int, str)):
        return x
    if isinstance(x, float):
        if x != x or x in (float('inf'), float('-inf')):
            return repr(x)
        return x
    if isinstance(x, Decimal):
        return {'$dec': str(x)}
    if isinstance(x, (datetime.date, datetime.datetime)):
        return {'$date': x.isoformat()}
    if isinstance(x, (list, tuple)):
        return [jsonable(i, depth + 1) for i in x]
    if isinstance(x, (set, frozenset)):
        return sorted((jsonable(i, depth + 1) for i in x), key=repr)
    if isinstance(x, dict):
        return {str(k): jsonable(v, depth + 1) for k, v in x.items()}
    if isinstance(x, type):
        return {'$type': x.__name__}
    if isinstance(x, BaseException):
        return {'$exc': type(x).__name__, 'msg': str(x)[:200]}
    return repr(x)


def unjson(x):
    from decimal import Decimal
    import datetime
    if isinstance(x, list):
        return [unjson(i) for i in x]
    if isinstance(x, dict):
        if set(x) == {'$dec'}:
            return Decimal(x['$dec'])
        if set(x) == {'$date'}:
            return datetime.date.fromisoformat(x['$date'][:10])
        return {k: unjson(v) for k, v in x.items()}
    return x


class Ctx(object):
    """Per-shard observation record."""

    def __init__(self, prop, tier='quick', seed=0, shard=None, replay=False):
        self.prop = prop
        self.tier = tier
        self.seed = seed
        self.shard = shard
        self.replay = replay
        self.counters = collections.Counter()     # monitor evaluations etc.
        self.samples = collections.defaultdict(list)
        self.witness = collections.defaultdict(list)   # mechanism key -> witnesses
        self.wcount = collections.Counter()             # mechanism key -> total cases
        self.nontrivial = 0
        self._nt_seen = set()
        self.info = {}
        self.required = {}         # counter name -> minimum for a conclusive run
        self.inconclusive = []
        self.ambient = None        # process-wide conditions of this shard (hash seed, working directory), set by the worker
        self.t0 = time.time()

    # ---- observation helpers -------------------------------------------------------
    def count(self, name, n=1):
        self.counters[name] += n

    def sample(self, kind, case, cap=MAX_SAMPLES_PER_KIND):
        s = self.samples[kind]
        if len(s) < cap:
            s.append(jsonable(case))

    def nt(self, key):
        """Register one distinct non-trivial case (key must be hashable)."""
        h = hash(key)
        if h not in self._nt_seen:
            self._nt_seen.add(h)
            self.nontrivial += 1
            return True
        return False

    def nt_bulk(self, n):
        """Register n cases that are distinct by construction (enumerated grid)."""
        self.nontrivial += n

    def violation(self, key, case, expected=None, observed=None, note=None):
        """Record a witness under a mechanism key (see findings.py)."""
        self.wcount[key] += 1
        w = self.witness[key]
        if len(w) < MAX_WITNESS_PER_KEY:
            d = {'case': jsonable(case)}
            if expected is not None:
                d['expected'] = jsonable(expected)
            if observed is not None:
                d['observed'] = jsonable(observed)
            if note:
                d['note'] = note
            from . import attach as _attach
            if _attach.AMB['current']:
                d['decimal_context'] = _attach.AMB['current']
            if self.ambient and (self.ambient.get('hashseed') != '0' or self.ambient.get('cwd') != VERIF or self.ambient.get('optimize') or self.ambient.get('warnings') or self.ambient.get('env') or self.ambient.get('thread')):
                d['ambient'] = self.ambient
            w.append(d)
        if self.replay:
            print('  violated [%s] case=%r expected=%r observed=%r %s' % (
                key, case, expected, observed, note or ''))

    def require(self, counter, minimum):
        self.required[counter] = max(minimum, self.required.get(counter, 0))

    def dump(self):
        return {
            'prop': self.prop, 'tier': self.tier, 'seed': self.seed, 'shard': self.shard,
            'counters': dict(self.counters), 'samples': dict(self.samples),
            'witness': dict(self.witness), 'wcount': dict(self.wcount),
            'nontrivial': self.nontrivial, 'info': self.info, 'required': self.required,
            'inconclusive': self.inconclusive, 'wall': time.time() - self.t0,
        }


def merge(dumps):
    out = {'counters': collections.Counter(), 'samples': collections.defaultdict(list),
           'witness': collections.defaultdict(list), 'wcount': collections.Counter(),
           'nontrivial': 0, 'info': {}, 'required': {}, 'inconclusive': [], 'cpu': 0.0, 'cover': None}
    for d in dumps:
        if d.get('cover') is not None:
            if out['cover'] is None:
                out['cover'] = {}
            for cf, cl in d['cover'].items():
                out['cover'].setdefault(cf, set()).update(cl)
        out['counters'].update(d['counters'])
        for k, v in d['samples'].items():
            s = out['samples'][k]
            for item in v:
                if len(s) < MAX_SAMPLES_PER_KIND and item not in s:
                    s.append(item)
        for k, v in d['witness'].items():
            w = out['witness'][k]
            for item in v:
                if len(w) < MAX_WITNESS_PER_KEY:
                    w.append(item)
        out['wcount'].update(d['wcount'])
        out['nontrivial'] += d['nontrivial']
        for k, v in d['info'].items():
            if isinstance(v, (int, float)) and isinstance(out['info'].get(k), (int, float)):
                out['info'][k] += v
            elif isinstance(v, list) and isinstance(out['info'].get(k), list):
                for i in v:
                    if i not in out['info'][k] and len(out['info'][k]) < 3000:
                        out['info'][k].append(i)
            elif isinstance(v, dict) and isinstance(out['info'].get(k), dict):
                for kk, vv in v.items():
                    if isinstance(vv, (int, float)) and isinstance(out['info'][k].get(kk), (int, float)):
                        out['info'][k][kk] += vv
                    else:
                        out['info'][k].setdefault(kk, vv)
            else:
                out['info'].setdefault(k, v)
        for k, v in d['required'].items():
            out['required'][k] = max(v, out['required'].get(k, 0))
        out['inconclusive'].extend(d['inconclusive'])
        out['cpu'] += d.get('wall', 0.0)
    return out


def slug(s):
    keep = ''.join(c if c.isalnum() or c in '-_.' else '_' for c in s)
    if len(keep) > 80:
        keep = keep[:60] + '_' + hashlib.sha1(s.encode()).hexdigest()[:10]
    return keep


def finish(prop, tier, seed, merged, meta, t0, replay_mode=False):
    """Classify, print verdict lines, write evidence; return exit code."""
    from . import findings
    known = findings.load_known(prop)
    lines = []
    unlisted = []
    known_seen = []
    rdir = os.path.join(VERIF, 'replays') if not os.environ.get('VERIF_NOEVIDENCE') else os.path.join(VERIF, 'replays', 'scratch')
    os.makedirs(rdir, exist_ok=True)
    for key in sorted(merged['witness']):
        n = merged['wcount'][key]
        wit = merged['witness'][key]
        path = os.path.join(rdir, '%s-%s.json' % (prop, slug(key)))
        with open(path, 'w') as f:
            json.dump({'property': prop, 'key': key, 'seed': seed, 'tier': tier, 'repo': REPO,
                       'count': n, 'witnesses': wit}, f, indent=1, sort_keys=True)
        eg = json.dumps(wit[0]['case'], sort_keys=True)[:160] if wit else ''
        if key in known:
            known_seen.append(key)
            lines.append('KNOWN-FINDING: property=%s %s: %d cases, e.g. %s' % (prop, key, n, eg))
        else:
            unlisted.append((key, path, n, eg))
    inconclusive = list(merged['inconclusive'])
    for c, minimum in sorted(merged['required'].items()):
        got = merged['counters'].get(c, 0)
        if got < minimum:
            inconclusive.append('monitor counter %s=%d below required minimum %d' % (c, got, minimum))
    for l in lines:
        print(l)
    for key, path, n, eg in unlisted[:20]:
        print('VIOLATION property=%s replay=%s' % (prop, path))
        print('  mechanism=%s cases=%d e.g. %s' % (key, n, eg))
    evaluations = int(sum(v for k, v in merged['counters'].items() if k.startswith('eval.')))
    samples = []
    for k in sorted(merged['samples']):
        for s in merged['samples'][k]:
            samples.append({'kind': k, 'case': s})
    cov = {
        'evaluations': evaluations,
        'distinct_nontrivial': int(merged['nontrivial']),
        'rule': meta.get('rule', ''),
        'samples': samples[:60],
        'exhaustive': bool(meta.get('exhaustive', False)),
        'monitor_counters': {k: int(v) for k, v in sorted(merged['counters'].items())},
        'known_findings_reobserved': {k: int(merged['wcount'][k]) for k in known_seen},
        'unlisted_violation_keys': {k: int(n) for k, _, n, _ in unlisted},
        'inconclusive_reasons': inconclusive,
        'shards': meta.get('shards', 0),
        'cpu_s': round(merged['cpu'], 2),
        'repo': REPO,
    }
    for k, v in merged['info'].items():
        cov.setdefault(k, v)
    from . import cover
    rep = cover.report(prop, merged.get('cover'))
    if rep:
        cov['anchor_line_coverage'] = rep
    if meta.get('explanation'):
        cov['explanation'] = meta['explanation']
    ev = {
        'property_id': prop, 'tier': tier, 'seed': int(seed), 'level': 'exploration',
        'coverage': cov,
        'assumptions': meta.get('assumptions', []),
        'wall_s': round(time.time() - t0, 2),
        'violations': len(unlisted),
    }
    if not replay_mode and not os.environ.get('VERIF_NOEVIDENCE'):
        os.makedirs(os.path.join(VERIF, 'evidence'), exist_ok=True)
        with open(os.path.join(VERIF, 'evidence', '%s.json' % prop), 'w') as f:
            json.dump(ev, f, indent=1, sort_keys=True)
        # a copy per tier, so that a later quick run does not erase what the last thorough run covered
        os.makedirs(os.path.join(VERIF, 'evidence', tier), exist_ok=True)
        with open(os.path.join(VERIF, 'evidence', tier, '%s.json' % prop), 'w') as f:
            json.dump(ev, f, indent=1, sort_keys=True)
    elif not replay_mode:
        with open(os.path.join(rdir, 'evidence-%s.json' % prop), 'w') as f:      # scratch run: kept out of evidence/
            json.dump(ev, f, indent=1, sort_keys=True)
    if unlisted:
        return 1
    if inconclusive:
        for r in inconclusive[:10]:
            print('INCONCLUSIVE property=%s reason=%s' % (prop, r))
        return 2
    print('HELD property=%s tier=%s seed=%s evaluations=%d distinct_nontrivial=%d known_findings=%d wall=%.1fs' % (
        prop, tier, seed, evaluations, cov['distinct_nontrivial'], len(known_seen), ev['wall_s']))
    return 0
