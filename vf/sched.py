"""Line-event pre-emption controller for C16 (delay injection at source-line granularity).

Scenario threads are real threading.Threads under the real GIL, but a token makes exactly one
of them run at a time; each runs under sys.settrace with a local trace function installed only
for frames whose code lives under <repo>/athlib.  At every 'line' event the thread asks the
controller whether to go on; a *schedule* is a set of forced pre-emptions
{(thread, k-th athlib line event): thread to run next}.  A pre-empted thread sleeps on a condition
variable until the token returns (when the other thread finishes or is itself pre-empted).

Locks found in athlib modules are replaced by cooperative proxies: a thread that would block on a
lock held by a pre-empted thread hands the token back instead of deadlocking the schedule.  A
progress watchdog releases all threads to run freely if the token holder makes no progress (a lock
the harness does not know about); a run whose threads never finish is reported as a deadlock.
"""
import os
import sys
import threading
import time


class SchedAbandoned(BaseException):
    pass


class CoopLock(object):
    """Cooperative proxy for a threading.Lock / RLock used by the code under test."""

    def __init__(self, real, name):
        self._real = real
        self._name = name
        self._factory = threading.RLock if isinstance(real, type(threading.RLock())) else threading.Lock
        self.ctl = None
        self.contended = 0
        self.gen = 0

    def renew(self):
        """A fresh real lock (between runs): a lock left held by an abandoned thread of an earlier run must not block the
        next one; threads still waiting on the old one are told to give up."""
        self.gen += 1
        self._real = self._factory()

    def acquire(self, blocking=True, timeout=-1):
        if self._real.acquire(False):
            return True
        if not blocking:
            return False
        if timeout is not None and timeout >= 0:
            # a timed wait: under the controller the holder is a pre-empted thread that may stay descheduled longer than any
            # timeout, so the wait is allowed to fail at once (the caller's failure path is part of the code under test);
            # free-running threads really wait
            if self.ctl is not None and not self.ctl.free_run:
                self.ctl.lock_waits += 1
                self.timed_out = getattr(self, 'timed_out', 0) + 1
                return False
            return self._real.acquire(True, timeout)
        ctl = self.ctl
        tid = getattr(_local, 'tid', None)
        gen = self.gen
        while True:
            if self.gen != gen:
                raise SchedAbandoned('the run this thread belonged to is over')
            if ctl is not None and tid is not None and not ctl.free_run:
                self.contended += 1
                ctl.lock_waits += 1
                ctl.yield_blocked(tid)
            else:
                time.sleep(0 if ctl is not None else 0.01)     # an abandoned (deadlocked) thread must not eat a core
            if self._real.acquire(False):
                return True

    def release(self):
        self._real.release()

    def __enter__(self):
        self.acquire()
        return self

    def __exit__(self, *a):
        self.release()

    def locked(self):
        return self._real.locked() if hasattr(self._real, 'locked') else False


_local = threading.local()
_LOCK_TYPES = (type(threading.Lock()), type(threading.RLock()))


class ThreadingProxy(object):
    """Stands in for the `threading` module inside athlib modules: locks created at run time (lazily, per object) are
    cooperative too."""

    def __init__(self, real, registry):
        self._real = real
        self._registry = registry

    def Lock(self, *a, **k):
        p = CoopLock(self._real.Lock(*a, **k), 'runtime Lock')
        p.ctl = self._registry.get('ctl')
        self._registry['locks'].append(p)
        return p

    def RLock(self, *a, **k):
        p = CoopLock(self._real.RLock(*a, **k), 'runtime RLock')
        p.ctl = self._registry.get('ctl')
        self._registry['locks'].append(p)
        return p

    def __getattr__(self, k):
        return getattr(self._real, k)


RUNTIME = {'ctl': None, 'locks': []}


def proxy_threading(modules):
    n = 0
    for m in modules:
        if vars(m).get('threading') is threading:
            m.threading = ThreadingProxy(threading, RUNTIME)
            n += 1
    return n


def instrument_locks(modules):
    """Replace module-global and class-level locks of the given modules with CoopLocks."""
    found = []
    for m in modules:
        for k, v in list(vars(m).items()):
            if isinstance(v, _LOCK_TYPES):
                p = CoopLock(v, '%s.%s' % (m.__name__, k))
                setattr(m, k, p)
                found.append(p)
            elif isinstance(v, type) and getattr(v, '__module__', '') == m.__name__:
                for ck, cv in list(vars(v).items()):
                    if isinstance(cv, _LOCK_TYPES):
                        p = CoopLock(cv, '%s.%s.%s' % (m.__name__, v.__name__, ck))
                        setattr(v, ck, p)
                        found.append(p)
    return found


class Controller(object):
    def __init__(self, root, switch_points, locks=()):
        self.root = os.path.join(os.path.abspath(root), 'athlib') + os.sep
        self.switch_points = dict(switch_points)       # {(tid, k): next_tid}
        self.cv = threading.Condition()
        self.current = None
        self.counts = {}
        self.done = set()
        self.started = set()
        self.stack = []
        self.free_run = False
        self.stalled = False
        self.lock_waits = 0
        self.progress = 0
        self.preempted_at = {}        # (tid, k) -> (file, line, function)
        self.ran_inside = {}          # (tid, k) -> lines other threads executed while tid was suspended
        self.suspended = {}           # tid -> (key, progress at suspension)
        self.locks = list(locks)
        self.record = None
        RUNTIME['ctl'] = self
        for l in self.locks + RUNTIME['locks']:
            l.ctl = self

    # ---- tracing ----------------------------------------------------------------------------
    def tracer(self, tid):
        root = self.root

        def local(frame, event, arg):
            if event == 'line':
                self.on_line(tid, frame)
            return local

        def glob(frame, event, arg):
            if frame.f_code.co_filename.startswith(root):
                return local
            return None
        return glob

    def on_line(self, tid, frame):
        n = self.counts[tid] = self.counts.get(tid, 0) + 1
        self.progress += 1
        if self.record is not None:
            self.record.append((frame.f_code.co_filename, frame.f_lineno))
        if self.free_run:
            return
        nxt = self.switch_points.get((tid, n))
        if nxt is not None and nxt not in self.done and nxt != tid:
            code = frame.f_code
            self.preempted_at[(tid, n)] = (os.path.relpath(code.co_filename, self.root), frame.f_lineno, code.co_name)
            self.switch(tid, nxt, (tid, n))

    # ---- token passing ------------------------------------------------------------------------
    def switch(self, tid, nxt, key=None):
        with self.cv:
            if tid in self.stack:
                self.stack.remove(tid)
            self.stack.append(tid)
            if nxt in self.stack:
                self.stack.remove(nxt)
            self.suspended[tid] = (key, self.progress)
            self.current = nxt
            self.cv.notify_all()
            self.wait_for_token(tid)
            k, p0 = self.suspended.pop(tid, (None, self.progress))
            if k is not None:
                self.ran_inside[k] = self.ran_inside.get(k, 0) + (self.progress - p0)

    def wait_for_token(self, tid):
        """cv held.  Wait until the token is ours; release everybody if the holder makes no progress."""
        last = (self.progress, len(self.done), self.current)
        idle = 0
        while self.current != tid and not self.free_run:
            self.cv.wait(0.03)
            now = (self.progress, len(self.done), self.current)
            if now == last:
                idle += 1
                if idle >= 5:           # 0.15 s without a single athlib line, finish or hand-over: unknown blocking
                    self.free_run = True
                    self.stalled = True
                    self.cv.notify_all()
            else:
                idle = 0
                last = now

    def yield_blocked(self, tid):
        """Called by a CoopLock: tid cannot get a lock; let somebody else run."""
        with self.cv:
            others = [t for t in reversed(self.stack) if t != tid and t not in self.done]
            if not others:
                others = [t for t in self.order if t != tid and t not in self.done and t not in self.started_running]
            if not others:
                self.cv.wait(0.001)
                return
            nxt = others[0]
            if nxt in self.stack:
                self.stack.remove(nxt)
            if tid in self.stack:
                self.stack.remove(tid)
            self.stack.insert(0, tid)          # blocked thread resumes last
            self.current = nxt
            self.cv.notify_all()
            self.wait_for_token(tid)

    def finished(self, tid):
        with self.cv:
            self.done.add(tid)
            if tid in self.stack:
                self.stack.remove(tid)
            if self.current == tid or self.current in self.done:
                cand = [t for t in reversed(self.stack) if t not in self.done]
                if not cand:
                    cand = [t for t in self.order if t not in self.done]
                self.current = cand[0] if cand else None
                if self.current in self.stack:
                    self.stack.remove(self.current)
            self.cv.notify_all()

    # ---- running a scenario ----------------------------------------------------------------------
    def run(self, fns, timeout=30.0):
        """fns: list of zero-argument callables, thread i runs fns[i]; thread 0 gets the token first."""
        res = {}
        self.order = list(range(len(fns)))
        self.started_running = set()

        def body(tid, fn):
            _local.tid = tid
            with self.cv:
                self.wait_for_token(tid)
                self.started_running.add(tid)
            sys.settrace(self.tracer(tid))
            try:
                res[tid] = ('return', fn())
            except BaseException as e:          # noqa
                res[tid] = ('raise', type(e).__name__, str(e)[:160])
            finally:
                sys.settrace(None)
                self.finished(tid)
        # every scenario thread carries the same name (pools often name their workers alike): nothing may key on it
        ths = [threading.Thread(target=body, args=(i, f), daemon=True, name='scorer') for i, f in enumerate(fns)]
        for t in ths:
            t.start()
        with self.cv:
            self.current = 0
            self.cv.notify_all()
        deadline = time.time() + timeout
        freed_at = None
        while any(t.is_alive() for t in ths) and time.time() < deadline:
            for t in ths:
                t.join(0.05)
            # once the progress watchdog has let every thread run freely, a thread that is still not done a few seconds
            # later is blocked for good (a lock that was never released): do not sit out the whole timeout
            if self.free_run:
                freed_at = freed_at or time.time()
                if time.time() - freed_at > 4.0:
                    break
        alive = [i for i, t in enumerate(ths) if t.is_alive()]
        for l in self.locks + RUNTIME['locks']:
            l.ctl = None
        RUNTIME['ctl'] = None
        return res, alive
