"""Launcher: ./check <ID> [--tier quick|thorough] [--replay path] [--seed N]"""
import argparse
import importlib
import json
import os
import subprocess
import sys
import tempfile
import time
from concurrent.futures import ThreadPoolExecutor

from . import core

NCPU = int(os.environ.get('VERIF_JOBS', '16'))


def ensure_deps():
    """Nothing to install: the monitors are plain recorder wrappers and need only what /venv already has
    (sortedcontainers for the monotonicity monitor, jsonschema as the repository itself) and node for C18."""
    return


def ambient_for(index, replay=None):
    """Process-wide conditions a shard runs under.  They are rotated over the shards (deterministically, by shard index), so
    that an answer which depends on the string-hash seed (set / dict-of-set iteration order), on the current directory
    (a data file opened by a relative path) or on assert statements being executed (python -O strips them), or that announces itself with a warning (turned into an
    error for warnings attributed to athlib modules, as `-W error` deployments and test runners do) meets more than the one combination the pinned tests run under.  A witness
    records the conditions of its shard and --replay restores them."""
    if replay:
        try:
            with open(replay) as f:
                for w in json.load(f).get('witnesses', []):
                    if w.get('ambient'):
                        return w['ambient']
        except Exception:
            pass
        return {'hashseed': '0', 'cwd': core.VERIF, 'optimize': False, 'warnings': False}
    # ... and the process environment an application or an operator may have set before athlib is imported: DEBUG=1 (the switch the
    # repository's own scripts use), a C locale with UTF-8 mode off (bundled files opened with the default encoding), debug logging
    # configured for every logger (a guarded `if log.isEnabledFor(DEBUG)` block that does more than log)
    return {'hashseed': str(index % 5), 'cwd': [core.VERIF, core.REPO, '/'][index % 3], 'optimize': index % 4 == 3, 'warnings': index % 4 == 1,
            'env': [None, None, 'DEBUG=1', None, 'C-locale', None, 'debug-logging'][index % 7],
            # the workload of every fifth shard runs in a thread of its own (a web worker, not the main thread: thread-local state
            # set up at import, signal-only facilities)
            'thread': index % 5 == 2}


def run_shard(prop, tier, seed, spec, timeout, replay=None, index=0):
    fd, out = tempfile.mkstemp(prefix='vf-%s-' % prop, suffix='.json', dir=os.environ.get('VERIF_TMP', None))
    os.close(fd)
    env = dict(os.environ)
    amb = ambient_for(index, replay)
    env['PYTHONHASHSEED'] = amb['hashseed']
    env['VERIF_AMBIENT'] = json.dumps(amb)
    env['PYTHONPATH'] = core.VERIF
    env['VERIF_REPO'] = core.REPO
    if amb.get('env') == 'DEBUG=1':
        env['DEBUG'] = '1'
    elif amb.get('env') == 'C-locale':
        env.update({'LC_ALL': 'C', 'LANG': 'C', 'PYTHONUTF8': '0', 'PYTHONCOERCECLOCALE': '0'})
    cmd = ['/venv/bin/python', '-X', 'faulthandler'] + (['-O'] if amb.get('optimize') else []) + ['-m', 'vf.worker', prop, tier, str(seed), json.dumps(spec), out]
    if replay:
        cmd.append(replay)
    t = time.time()
    try:
        p = subprocess.run(cmd, env=env, cwd=amb['cwd'], timeout=timeout, stdout=subprocess.PIPE,
                           stderr=subprocess.PIPE, text=True)
        try:
            with open(out) as f:
                d = json.load(f)
        except Exception:
            d = None
        if p.returncode != 0 or d is None:
            d = d or {'counters': {}, 'samples': {}, 'witness': {}, 'wcount': {}, 'nontrivial': 0, 'info': {},
                      'required': {}, 'inconclusive': [], 'wall': time.time() - t}
            d['inconclusive'].append('shard %s crashed rc=%s: %s' % (json.dumps(spec)[:80], p.returncode,
                                                                    (p.stderr or '').strip()[-600:]))
        if replay and p.stdout:
            sys.stdout.write(p.stdout)
        return d
    except subprocess.TimeoutExpired:
        return {'counters': {}, 'samples': {}, 'witness': {}, 'wcount': {}, 'nontrivial': 0, 'info': {},
                'required': {}, 'inconclusive': ['shard %s watchdog fired after %ds' % (json.dumps(spec)[:80], timeout)],
                'wall': time.time() - t}
    finally:
        try:
            os.unlink(out)
        except OSError:
            pass


def main(argv=None):
    ap = argparse.ArgumentParser()
    ap.add_argument('prop')
    ap.add_argument('--tier', default=os.environ.get('VERIF_TIER', 'quick'), choices=['quick', 'thorough'])
    ap.add_argument('--seed', type=int, default=int(os.environ.get('VERIF_SEED', '0') or 0))
    ap.add_argument('--replay')
    a = ap.parse_args(argv)
    prop = a.prop.upper()
    t0 = time.time()
    ensure_deps()
    mod = importlib.import_module('vf.props.%s' % prop.lower())
    if a.replay:
        d = run_shard(prop, a.tier, a.seed, {'replay': True}, 3600, replay=os.path.abspath(a.replay))
        merged = core.merge([d])
        rc = core.finish(prop, a.tier, a.seed, merged, dict(mod.META), t0, replay_mode=True)
        return rc
    specs = mod.shards(a.tier, a.seed)
    timeout = mod.META.get('timeout', {}).get(a.tier, 1500 if a.tier == 'quick' else 7200)
    with ThreadPoolExecutor(max_workers=NCPU) as ex:
        dumps = list(ex.map(lambda js: run_shard(prop, a.tier, a.seed, js[1], timeout, index=js[0]), list(enumerate(specs))))
    merged = core.merge(dumps)
    meta = dict(mod.META)
    meta['shards'] = len(specs)
    if hasattr(mod, 'post_merge'):
        mod.post_merge(merged, a.tier, a.seed)
    return core.finish(prop, a.tier, a.seed, merged, meta, t0)


if __name__ == '__main__':
    sys.exit(main())
