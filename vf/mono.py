"""Online monotonicity monitor: per key a sorted map x -> (lowest y, highest y) seen; every insertion is compared with
its predecessor and successor only (adjacent comparison suffices for a total order), so any
observed pair that breaks monotonicity is found whatever order the workload used."""
from sortedcontainers import SortedDict


class Mono(object):
    def __init__(self, on_break, tol=0.0, repeats='ignore'):
        # repeats: what to do with an x seen again with another y - 'ignore' it (several legitimate series share the axis, as
        # the track and road rows of one WMA table do) or 'compare' it with the neighbours too (one series, several spellings)
        self.repeats = repeats
        self.maps = {}
        self.on_break = on_break      # (key, (x_lo, y_lo), (x_hi, y_hi))
        self.tol = tol
        self.pairs = 0

    def add(self, key, x, y):
        """y must be non-decreasing in x for a fixed key.  A mark seen again with another y (another spelling of the event,
        another input form) is compared with its neighbours as well: per x the map keeps (lowest y, highest y)."""
        m = self.maps.get(key)
        if m is None:
            m = self.maps[key] = SortedDict()
        if x in m:
            lo, hi = m[x]
            if lo <= y <= hi or self.repeats == 'ignore':
                return
            m[x] = (min(lo, y), max(hi, y))
        else:
            m[x] = (y, y)
        i = m.index(x)
        if i > 0:
            px, (plo, phi) = m.peekitem(i - 1)
            self.pairs += 1
            if phi > y + self.tol:
                self.on_break(key, (px, phi), (x, y))
        if i + 1 < len(m):
            nx, (nlo, nhi) = m.peekitem(i + 1)
            self.pairs += 1
            if y > nlo + self.tol:
                self.on_break(key, (x, y), (nx, nlo))
