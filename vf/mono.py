"""Online monotonicity monitor: per key a sorted map x -> y; every insertion is compared with
its predecessor and successor only (adjacent comparison suffices for a total order), so any
observed pair that breaks monotonicity is found whatever order the workload used."""
from sortedcontainers import SortedDict


class Mono(object):
    def __init__(self, on_break, tol=0.0):
        self.maps = {}
        self.on_break = on_break      # (key, (x_lo, y_lo), (x_hi, y_hi))
        self.tol = tol
        self.pairs = 0

    def add(self, key, x, y):
        """y must be non-decreasing in x for a fixed key."""
        m = self.maps.get(key)
        if m is None:
            m = self.maps[key] = SortedDict()
        if x in m:
            return
        i = m.bisect_left(x)
        if i > 0:
            px, py = m.peekitem(i - 1)
            self.pairs += 1
            if py > y + self.tol:
                self.on_break(key, (px, py), (x, y))
        if i < len(m):
            nx, ny = m.peekitem(i)
            self.pairs += 1
            if y > ny + self.tol:
                self.on_break(key, (x, y), (nx, ny))
        m[x] = y
