"""High-jump machinery shared by C02, C03 and C08: recorder on the real HighJumpCompetition,
shadow log, partial rule book, countback oracle, replay monitors and the history explorer.

Everything the oracles know comes from the *accepted calls* observed by the recorder (the shadow
log), never from the object's own flags.
"""
import collections
import decimal
import itertools
import random
import sys
from decimal import Decimal as D

from . import attach

RANK = {'scheduled': 0, 'started': 1, 'jumpoff': 2, 'won': 2, 'finished': 3, 'drawn': 3}
LETTER = {'cleared': 'o', 'failed': 'x', 'passed': '-', 'retired': 'r'}
TRIALS = ('cleared', 'failed', 'passed', 'retired')


# start-list details: in the 'kw' shards every athlete is entered with the optional details a real start list carries - the same
# explicit order for everybody (the field is free text: 'DQ' / 'DNS' or a position), a non-scorer flag for the second athlete,
# team and category - the rules do not look at any of them
KW = {'on': False, 'bibs': []}


def jumper_kwargs(bib):
    if not KW['on']:
        return {}
    if bib not in KW['bibs']:
        KW['bibs'].append(bib)
    i = KW['bibs'].index(bib)
    # order: 1, '1', 1, '2', 1, '3' ... (two athletes with the same position, positions typed as text as a pasted card has them)
    return {'order': (str(i // 2 + 1) if i % 2 else 1), 'non_scorer': i == 1, 'team': 'T%d' % (i % 2), 'category': 'OPEN', 'first_name': 'N%d' % i}


def add(c, bib):
    return c.add_jumper(bib=bib, **jumper_kwargs(bib))


def _printed(c):
    import contextlib
    import io
    with contextlib.redirect_stdout(io.StringIO()):
        c.print_ranking()


def vandalise(r, depth=0):
    """scribble on a returned container (and the containers inside it)"""
    if depth > 3:
        return
    try:
        if isinstance(r, list):
            for x in list(r):
                vandalise(x, depth + 1)
            r.append('scribble')
            r.reverse()
            del r[:]
        elif isinstance(r, dict):
            for x in list(r.values()):
                vandalise(x, depth + 1)
            r.clear()
            r['scribble'] = 1
        elif isinstance(r, set):
            r.clear()
    except Exception:
        pass


READERS = {
    'to_matrix': lambda c: c.to_matrix(),
    'to_matrix-with-bib': lambda c: c.to_matrix(['bib']),
    'trials': lambda c: c.trials,
    'trial_objs': lambda c: c.trial_objs,
    'remaining': lambda c: c.remaining,
    'eliminated': lambda c: c.eliminated,
    'is_finished+is_running': lambda c: (c.is_finished, c.is_running),
    'standings': lambda c: [(j.place, j.ranking_key, j.has_retired) for j in c.ranked_jumpers],
    'print_ranking': _printed,
}


# --------------------------------------------------------------------------- snapshots / clone
_J_LISTED = ('bib', 'attempts_by_height', 'highest_cleared', '_place', 'eliminated', 'dismissed', 'round_lim', 'consecutive_failures',
             'highest_cleared_index')
# ('verbose' is a printing switch, not state: from_matrix sets it to False, the constructor to 0)
_C_LISTED = ('state', 'heights', 'bar_height', 'jumpers', 'ranked_jumpers', 'jumpers_by_bib', 'actions', '_vf_shadow', 'verbose')


def _others(obj, listed):
    """every other instance attribute, whatever it is called (a counter or a flag added later is state as well): name and printed
    value, containers printed in a stable order"""
    out = []
    for k, v in sorted(vars(obj).items()):
        if k in listed:
            continue
        if isinstance(v, (set, frozenset)):
            r = repr(sorted(v, key=repr))
        elif isinstance(v, dict):
            r = repr(sorted(v.items(), key=repr))
        else:
            r = repr(v)
        if ' at 0x' not in r:
            out.append((k, r))
    return tuple(out)


def jumper_pub(j):
    return (j.bib, tuple(j.attempts_by_height), j.highest_cleared, j.place, j._place, j.eliminated, j.dismissed,
            j.round_lim, j.consecutive_failures, j.highest_cleared_index, _others(j, _J_LISTED))


def snap(c, log=True):
    s = (c.state, tuple(c.heights), c.bar_height, tuple(jumper_pub(j) for j in c.jumpers), tuple(j.bib for j in c.ranked_jumpers),
         tuple(sorted(c.jumpers_by_bib, key=repr)) + (_others(c, _C_LISTED),))
    if log:
        s += (tuple((a, (tuple(sorted(v.items())) if isinstance(v, dict) else v)) for a, v in c.actions), tuple(c.trials))
    return s


def snap_diff(a, b):
    names = ['state', 'heights', 'bar_height', 'jumpers(bib,card,best,place,_place,eliminated,dismissed,round_lim,consecutive_failures,best_index,other-attributes)',
             'ranked order', 'bibs+other-attributes', 'actions', 'trials']
    return [names[i] for i in range(min(len(a), len(b))) if a[i] != b[i]]


def observable(c):
    """what the property names for the card / re-ordering clauses: state, heights, cards (pass marks and trailing blanks
    aside), bests, places"""
    out = []
    for j in sorted(c.jumpers, key=lambda j: str(j.bib)):
        cd = [s.replace('-', '') for s in j.attempts_by_height]
        while cd and cd[-1] == '':
            cd.pop()
        out.append((str(j.bib), tuple(cd), '%.2f' % j.highest_cleared, j.place))
    # heights and bests as the card prints them (two decimals): a caller may have set the bar with a float
    return (c.state, tuple('%.2f' % h for h in c.heights), tuple(out))


def clone(c):
    H = c.__class__
    n = H.__new__(H)
    n.__dict__.update(c.__dict__)
    m = {}
    n.jumpers = []
    for j in c.jumpers:
        j2 = j.__class__.__new__(j.__class__)
        j2.__dict__.update(j.__dict__)
        j2.attempts_by_height = list(j.attempts_by_height)
        m[id(j)] = j2
        n.jumpers.append(j2)
    n.jumpers_by_bib = {b: m[id(j)] for b, j in c.jumpers_by_bib.items()}
    n.ranked_jumpers = [m[id(j)] for j in c.ranked_jumpers]
    n.heights = list(c.heights)
    n.actions = list(c.actions)
    sh = getattr(c, '_vf_shadow', None)
    if sh is not None:
        n._vf_shadow = sh.copy()
    return n


# --------------------------------------------------------------------------- shadow log + oracles
class Shadow(object):
    """What the monitor knows from accepted calls only."""

    def __init__(self):
        self.bibs = []
        self.heights = []
        self.cards = {}
        self.jo_start = None          # index into heights where the jump-off heights begin
        self.states = ['scheduled']
        self.irregular = False        # entered a region the property text does not determine
        self.degenerate = False       # "jump-off" among athletes with no clearance
        self.jo_pass = False          # a pass recorded inside a jump-off
        self.jo_participants = None
        self.jo_initial = None
        self.refused = 0
        self.log = []                 # accepted (method, arg)
        self.why_irregular = None

    def copy(self):
        n = Shadow.__new__(Shadow)
        n.__dict__.update(self.__dict__)
        n.bibs = list(self.bibs)
        n.heights = list(self.heights)
        n.cards = {b: list(c) for b, c in self.cards.items()}
        n.states = list(self.states)
        n.jo_participants = None if self.jo_participants is None else list(self.jo_participants)
        n.log = list(self.log)
        return n

    def card(self, b, i=None):
        c = self.cards[b]
        i = len(self.heights) - 1 if i is None else i
        return c[i] if 0 <= i < len(c) else ''

    def seq(self, b):
        return ''.join(self.cards[b])

    def key(self):
        return (self.jo_start, self.irregular, self.jo_pass, tuple(self.jo_participants) if self.jo_participants is not None else None)


def countback(bibs, cards, heights, upto):
    """Regular countback over heights[:upto] -> ({bib: place or ''}, {bib: key}, levels needed)."""
    keys = {}
    for b in bibs:
        best = None
        bi = None
        for i in range(min(upto, len(cards[b]))):
            if 'o' in cards[b][i] and (best is None or heights[i] > best):
                best, bi = heights[i], i
        if best is None:
            keys[b] = None
        else:
            keys[b] = (-best, cards[b][bi].count('x'), sum(s.count('x') for s in cards[b][:bi + 1]))
    placed = sorted([b for b in bibs if keys[b] is not None], key=lambda b: keys[b])
    places = {b: '' for b in bibs}
    levels = 0
    for i, b in enumerate(placed):
        if i and keys[b] == keys[placed[i - 1]]:
            places[b] = places[placed[i - 1]]
        else:
            places[b] = i + 1
        if i:
            ka, kb = keys[placed[i - 1]], keys[b]
            if ka[0] == kb[0]:
                levels = max(levels, 2 if ka[1] != kb[1] else 3)
            else:
                levels = max(levels, 1)
    return places, keys, levels


def best_ever(cards, heights, b):
    hs = [heights[i] for i, s in enumerate(cards[b]) if 'o' in s and i < len(heights)]
    return max(hs) if hs else D('0.00')


def must_refuse(sh, places_before, m, a):
    """Reason if the rule text forbids the call (computed from the shadow log only), else None."""
    st = sh.states[-1]
    if st in ('finished', 'drawn'):
        return 'competition finished or drawn'
    if st == 'jumpoff' and sh.jo_participants is not None and not sh.jo_participants and not sh.irregular and not sh.degenerate \
            and sh.jo_start is not None and len(sh.heights) > sh.jo_start:
        # everybody who was still in the jump-off has retired or been knocked out: there is nobody left to jump or to set a bar for
        return 'nobody left in the jump-off'
    if m == 'add_jumper':
        if sh.heights:
            return 'athletes join only before the first bar height'
        if a in sh.bibs:
            return 'duplicate bib'
        return None
    if m == 'set_bar_height':
        if st != 'jumpoff' and sh.heights and a <= sh.heights[-1]:
            return 'bar only rises outside a jump-off'
        if st != 'jumpoff' and not sh.heights and a <= 0:
            return 'first bar must be above zero'
        return None
    b = a
    if not sh.heights:
        return 'no bar height yet'
    s = sh.card(b)
    in_jo = sh.jo_start is not None and len(sh.heights) > sh.jo_start
    if len(s.replace('-', '').replace('r', '')) >= (1 if in_jo else 3):
        return 'attempt limit at this height'
    if s.endswith('o') or s.endswith('-'):
        return 'already cleared or passed this height'
    if 'r' in sh.seq(b):
        return 'retired'
    if st in ('won', 'drawn', 'finished') and places_before.get(b) != 1:
        return 'competition decided against them'
    reg = ''.join(sh.cards[b][:sh.jo_start] if sh.jo_start is not None else sh.cards[b]).replace('-', '')
    tail = reg.split('o')[-1]
    if tail.count('x') >= 3:
        if not (st == 'jumpoff' and sh.jo_participants and b in sh.jo_participants):
            return 'three consecutive failures'
    if st == 'jumpoff' and sh.jo_participants is not None and b not in sh.jo_participants:
        return 'not a jump-off participant'
    if st == 'jumpoff' and len(sh.heights) == sh.jo_start:
        return 'jump-off declared, awaiting the jump-off bar'
    return None


SOFT = ('three consecutive failures', 'not a jump-off participant', 'attempt limit at this height', 'jump-off declared, awaiting the jump-off bar')


class Monitor(object):
    """Recorder + online checkers on the real class.  flags: rules (C02), final (C03), replay (C08)."""

    def __init__(self, ctx, rules=True, final=True, replay=False, replay_every=1):
        self.ctx = ctx
        self.rules, self.final, self.replay = rules, final, replay
        self.replay_every = replay_every
        self.hm = sys.modules['athlib.highjump']
        self.H = self.hm.HighJumpCompetition
        self.RV = sys.modules['athlib.exceptions'].RuleViolation
        self.busy = 0
        self.rnd = random.Random(ctx.seed + 17)
        self.nreplay = 0
        self.ncalls = 0
        self.seen_pairs = set()
        for name in ('add_jumper', 'set_bar_height') + TRIALS:
            self.wrap(name)

    # ---- recorder ---------------------------------------------------------------------------
    def wrap(self, name):
        raw = self.H.__dict__[name]
        mon = self

        def wrapper(comp, *a, **k):
            # every fifth call runs under a decimal context an embedding application may have set (see attach.HOSTILE; the
            # ones with traps are left out here because the float-height shards compare Decimal with float by design, and so
            # are precisions below 9 digits)
            attach.AMB['n'] += 1
            hc = attach.hostile_context(attach.AMB['n']) if attach.AMB['current'] is None and not mon.busy else None
            if hc is not None and (hc[1].traps[decimal.FloatOperation] or hc[1].prec < 9):
                # bar heights are the caller's Decimals (the fine-bar shards use six significant digits): a precision below what
                # the heights themselves carry changes `-height` in the ranking key, which is the caller's doing, not a defect
                hc = None
            if hc is None:
                return judged(comp, a, k)
            attach.AMB['current'] = hc[0]
            mon.ctx.counters['ambient.decimal-context-calls'] += 1
            try:
                with decimal.localcontext(hc[1]):
                    return judged(comp, a, k, True)
            finally:
                attach.AMB['current'] = None

        def judged(comp, a, k, hostile=False):
            pre = mon.before(comp, name, a, k)
            try:
                r = raw(comp, *a, **k)
            except Exception as e:
                mon.after(comp, name, a, k, pre, e)
                mon.probe_readers(comp)
                raise
            mon.after(comp, name, a, k, pre, None)
            mon.probe_readers(comp)
            return r
        wrapper.__name__ = name
        wrapper.__vf_original__ = raw
        setattr(self.H, name, wrapper)

    def probe_readers(self, comp):
        """Looking at a competition (field card, trials, standings, printed ranking) must not change it: every 8th monitored
        call each read accessor is used once, with a snapshot in between."""
        self.ncalls += 1
        if self.ncalls % 8 or self.busy:
            return
        ctx = self.ctx
        s0 = snap(comp)
        for nm in sorted(READERS):
            try:
                r = READERS[nm](comp)
                r2 = READERS[nm](comp)
            except Exception:
                ctx.count('unjudged.read-accessor-raised')
                continue
            ctx.count('eval.read-accessor-probe')
            # asked twice, the same answer; and what is handed out belongs to the caller: scribbling on it (clearing the
            # rows of the card, appending to a list of trials) must not reach the competition
            try:
                if repr(r) != repr(r2) and ' at 0x' not in repr(r):
                    ctx.violation('read-accessor-answers-differently-when-asked-twice:%s' % nm, self.describe(self.shadow(comp), 'read', nm),
                                  repr(r)[:200], repr(r2)[:200])
            except Exception:
                pass
            vandalise(r)
            s1 = snap(comp)
            if s1 != s0:
                ctx.violation('read-accessor-changes-the-competition:%s:%s' % (nm, '+'.join(snap_diff(s0, s1))[:80]),
                              self.describe(self.shadow(comp), 'read', nm), 'unchanged', snap_diff(s0, s1))
                s0 = s1

    @staticmethod
    def arg(name, a, k):
        if name == 'add_jumper':
            return k.get('bib', '0')
        return a[0] if a else None

    def shadow(self, comp):
        sh = comp.__dict__.get('_vf_shadow')
        if sh is None:
            sh = comp._vf_shadow = Shadow()
            if comp.actions or comp.jumpers or comp.heights:
                sh.irregular = True      # first seen mid-life: nothing can be inferred
                sh.why_irregular = 'first observed mid-life'
        return sh

    def before(self, comp, name, a, k):
        sh = self.shadow(comp)
        arg = self.arg(name, a, k)
        known = name in ('add_jumper', 'set_bar_height') or arg in sh.cards
        places = {j.bib: j.place for j in comp.jumpers}
        return {'snap': snap(comp), 'state': comp.state, 'places': places, 'known': known, 'arg': arg,
                'mr': must_refuse(sh, places, name, arg) if known and not sh.why_irregular == 'first observed mid-life' else None}

    def describe(self, sh, name, arg):
        def j(v):
            return v if isinstance(v, (dict, int)) and not isinstance(v, bool) else str(v)
        d = {'history': [[m, j(v)] for m, v in sh.log], 'call': [name, j(arg)]}
        if KW['on']:
            d['jumper_kwargs'] = True
        return d

    def after(self, comp, name, a, k, pre, exc):
        ctx = self.ctx
        sh = self.shadow(comp)
        arg = pre['arg']
        ctx.count('eval.call')
        if not pre['known']:
            ctx.count('unjudged.unknown-bib')
            return
        st = pre['state']
        accepted = exc is None
        case = None
        if not accepted:
            sh.refused += 1
            if isinstance(exc, self.RV):
                ctx.count('judged.refusal')
                now = snap(comp)
                if now != pre['snap']:
                    case = self.describe(sh, name, arg)
                    ctx.violation('atomicity:refused-call-changed:%s:%s' % (name, '+'.join(snap_diff(pre['snap'], now))[:80]), case,
                                  'unchanged', snap_diff(pre['snap'], now))
                elif self.rules:
                    if ctx.nt(('ref', st, name, pre['mr'])):
                        ctx.sample('refused-unchanged', {'state': st, 'call': [name, str(arg)], 'rule': pre['mr'], 'error': str(exc)[:80],
                                                         'cards': {b: list(c) for b, c in sh.cards.items()}, 'heights': [str(h) for h in sh.heights]}, 12)
            else:
                ctx.violation('exception-class:%s:%s' % (type(exc).__name__, name), self.describe(sh, name, arg), 'RuleViolation', repr(exc)[:200])
                return
        if self.rules:
            mr = pre['mr']
            if accepted and mr and not (sh.irregular and mr in SOFT):
                ctx.violation('rules:accepted-but-forbidden:%s:%s' % (name, mr), self.describe(sh, name, arg), 'RuleViolation', 'accepted')
            elif not accepted and isinstance(exc, self.RV) and not mr and not sh.irregular:
                ctx.violation('rules:refused-but-allowed:%s:state=%s' % (name, st), self.describe(sh, name, arg), 'accepted', str(exc)[:120])
            elif sh.irregular:
                ctx.count('unspecified.call-in-unspecified-region')
            else:
                ctx.count('judged.rule-decision')
                if accepted and len(sh.log) > 6:
                    ctx.sample('accepted-and-allowed', {'state': st, 'call': [name, str(arg)], 'history_len': len(sh.log)}, 3)
        if not accepted:
            return
        # ---- accepted: extend the shadow log ------------------------------------------------
        sh.log.append((name, arg))
        if name == 'add_jumper':
            sh.bibs.append(arg)
            sh.cards[arg] = []
        elif name == 'set_bar_height':
            if st == 'jumpoff' and sh.jo_participants and len(sh.heights) > sh.jo_start:
                for b in sh.jo_participants:
                    if sh.card(b) == '' and 'r' not in sh.seq(b):
                        sh.irregular = True
                        sh.why_irregular = sh.why_irregular or 'jump-off bar moved before every participant attempted or retired'
            sh.heights.append(arg)
        else:
            cd = sh.cards[arg]
            while len(cd) < len(sh.heights):
                cd.append('')
            cd[-1] += LETTER[name]
            if name == 'passed' and st == 'jumpoff':
                sh.irregular = True
                sh.jo_pass = True
                sh.why_irregular = sh.why_irregular or 'pass inside a jump-off'
        ns = comp.state
        if ns not in RANK:
            ctx.violation('state:unknown-name', self.describe(sh, name, arg), list(RANK), ns)
            return
        if RANK[ns] < RANK[st] or (RANK[ns] == RANK[st] and ns != st):
            ctx.violation('state:order:%s->%s' % (st, ns), self.describe(sh, name, arg), 'forward only', [st, ns])
        if ns != sh.states[-1]:
            sh.states.append(ns)
            if ns == 'jumpoff':
                sh.jo_start = len(sh.heights)
                pl, _k, _l = countback(sh.bibs, sh.cards, sh.heights, sh.jo_start)
                if not any(v == 1 for v in pl.values()):
                    sh.irregular = True
                    sh.degenerate = True
                    sh.why_irregular = sh.why_irregular or 'jump-off among athletes with no clearance'
                sh.jo_participants = [b for b in sh.bibs if pl.get(b) == 1 and 'r' not in sh.seq(b)]
                sh.jo_initial = [b for b in sh.bibs if pl.get(b) == 1]
                if sh.degenerate:
                    sh.jo_participants = [j.bib for j in comp.jumpers if j._place == 1 and 'r' not in sh.seq(j.bib)]
        if ns == 'jumpoff' and sh.jo_participants and len(sh.heights) > sh.jo_start:
            acts = {b: sh.card(b) for b in sh.jo_participants}
            if all(v != '' or 'r' in sh.seq(b) for b, v in acts.items()):
                cl = [b for b, v in acts.items() if 'o' in v]
                if cl:
                    sh.jo_participants = cl
                else:
                    sh.jo_participants = [b for b in sh.jo_participants if 'r' not in sh.seq(b)]
                if self.final and not sh.irregular and not sh.degenerate and name in TRIALS:
                    # bounded progress: the round is complete (every participant attempted or retired).  One clearance breaks
                    # the tie - the competition is over with that athlete first; nobody left to jump - it is drawn.  (A state
                    # that stays 'jumpoff' never reaches the terminal oracle, so this is judged here.)
                    ctx.count('eval.jump-off-round-complete')
                    if len(cl) == 1 and ns == 'jumpoff':
                        ctx.violation('jump-off-not-decided:single-clearance-in-a-complete-round-but-state-stays-jumpoff',
                                      self.describe(sh, name, arg), 'finished', ns)
                    elif not cl and not sh.jo_participants and ns == 'jumpoff':
                        ctx.violation('draw-not-declared:everyone-still-in-the-jump-off-retired-but-state-stays-jumpoff',
                                      self.describe(sh, name, arg), 'drawn', ns)
        self.invariants(comp, sh, name, arg)
        if self.final and ns == 'jumpoff' and sh.jo_initial and not sh.degenerate and all('r' in sh.seq(b) for b in sh.jo_initial):
            # every athlete tied for first has retired: nobody is left to break the tie, it must be declared drawn
            ctx.count('eval.all-tied-leaders-retired')
            ctx.violation('draw-not-declared:every-tied-leader-retired-but-state-stays-jumpoff', self.describe(sh, name, arg), 'drawn', ns)
        if self.final and ns in ('finished', 'won', 'drawn'):
            self.judge_final(comp, sh, name, arg)
        if self.replay and not self.busy:
            self.nreplay += 1
            if self.nreplay % self.replay_every == 0:
                self.judge_replay(comp, sh)

    # ---- structural invariants --------------------------------------------------------------
    def invariants(self, comp, sh, name, arg):
        ctx = self.ctx
        ctx.count('eval.invariants')
        bad = None
        if len(comp.actions) != len(sh.log) and not sh.why_irregular == 'first observed mid-life':
            bad = 'action-log-length-differs-from-accepted-calls'
        elif sorted(map(id, comp.ranked_jumpers)) != sorted(map(id, comp.jumpers)):
            bad = 'ranked_jumpers-not-a-permutation-of-jumpers'
        elif any(comp.jumpers_by_bib.get(j.bib) is not j for j in comp.jumpers) or len(comp.jumpers_by_bib) != len(comp.jumpers):
            bad = 'jumpers_by_bib-inconsistent'
        elif any(len(j.attempts_by_height) > len(comp.heights) for j in comp.jumpers):
            bad = 'card-longer-than-heights'
        elif comp.heights and comp.bar_height != comp.heights[-1]:
            bad = 'bar_height-not-last-height'
        else:
            for j in comp.jumpers:
                if j.bib in sh.cards and not sh.why_irregular == 'first observed mid-life':
                    mine = list(sh.cards[j.bib])
                    theirs = list(j.attempts_by_height)
                    while mine and mine[-1] == '':
                        mine.pop()
                    while theirs and theirs[-1] == '':
                        theirs.pop()
                    if mine != theirs:
                        bad = 'card-differs-from-accepted-trials'
                        break
        if bad:
            ctx.violation('invariant:%s' % bad, self.describe(sh, name, arg), 'holds', 'broken after %s' % name)

    # ---- C03: final placings ------------------------------------------------------------------
    def judge_final(self, comp, sh, name, arg):
        ctx = self.ctx
        ns = comp.state
        ctx.count('eval.terminal-state')
        if sh.why_irregular == 'first observed mid-life':
            return
        case = {'history': [[m, str(v)] for m, v in sh.log], 'state': ns, 'cards': {b: list(c) for b, c in sh.cards.items()},
                'heights': [str(h) for h in sh.heights], 'jo_start': sh.jo_start}
        got = {j.bib: j.place for j in comp.jumpers}
        for j in comp.jumpers:
            be = best_ever(sh.cards, sh.heights, j.bib)
            if j.highest_cleared != be:
                lower = sh.jo_start is not None and any('o' in s for s in sh.cards[j.bib][sh.jo_start:])
                ctx.violation('best:not-the-greatest-height-cleared' + (':jump-off-clearance-below-earlier-best' if lower and j.highest_cleared < be else ''),
                              dict(case, bib=j.bib), str(be), str(j.highest_cleared))
                return
        upto = sh.jo_start if sh.jo_start is not None else len(sh.heights)
        places, keys, levels = countback(sh.bibs, sh.cards, sh.heights, upto)
        kind = ns + ('-after-jump-off' if sh.jo_start is not None else '')
        if sh.jo_start is None:
            ctx.count('judged.terminal.%s' % kind)
            if got != places:
                ctx.violation('places:countback:%s' % ns, dict(case, expected=places), places, got)
                return
            if ns == 'finished' and list(got.values()).count(1) > 1:
                ctx.violation('places:tie-for-first-left-standing', case, 'one winner', got)
                return
        else:
            T = [b for b in sh.bibs if places[b] == 1]
            if not T:
                ctx.count('unspecified.terminal-jump-off-among-athletes-with-no-clearance')
                return
            if sh.irregular:
                ctx.count('unspecified.terminal-after-irregular-jump-off')
                # still judged: those outside the tie keep their regular place
            ctx.count('judged.terminal.%s' % kind)
            for b in sh.bibs:
                if b not in T and got[b] != places[b]:
                    ctx.violation('places:athlete-outside-the-tie-moved', dict(case, bib=b, expected=places), places[b], got[b])
                    return
            firsts = [b for b in sh.bibs if got[b] == 1]
            if not set(firsts) <= set(T):
                ctx.violation('places:first-place-outside-the-tie', case, T, firsts)
                return
            for b in T:
                if not (isinstance(got[b], int) and 1 <= got[b] <= len(T)):
                    ctx.violation('places:jump-off-participant-behind-non-participants', dict(case, bib=b), '1..%d' % len(T), got[b])
                    return
            if not sh.irregular:
                if ns == 'finished' and len(firsts) != 1:
                    ctx.violation('places:tie-for-first-left-standing', case, 'one winner', got)
                    return
                if ns == 'drawn' and len(firsts) < 2:
                    ctx.violation('places:drawn-with-a-single-first', case, '>= 2 share first', got)
                    return
                if ns == 'finished':
                    # the survivor: the participant never beaten at a jump-off height
                    alive = list(T)
                    alive = [b for b in alive if 'r' not in ''.join(sh.cards[b][:sh.jo_start])]
                    for i in range(sh.jo_start, len(sh.heights)):
                        acts = {b: (sh.cards[b][i] if i < len(sh.cards[b]) else '') for b in alive}
                        cl = [b for b in alive if 'o' in acts[b]]
                        alive = cl if cl else [b for b in alive if 'r' not in acts[b]]
                    if len(alive) == 1 and firsts != alive:
                        ctx.violation('places:jump-off-survivor-not-first', dict(case, survivor=alive), alive, firsts)
                        return
        if ctx.nt(('term', ns, sh.jo_start is not None, tuple(sorted((b, tuple(c)) for b, c in sh.cards.items())), tuple(sh.heights))):
            ctx.count('judged.terminal-distinct')
            if levels >= 2:
                ctx.count('judged.terminal-needing-countback-level-%d' % levels)
            ctx.sample('terminal-%s' % kind, {'cards': case['cards'], 'heights': case['heights'], 'places': got}, 2)

    # ---- C08: replay monitors -------------------------------------------------------------------
    def judge_replay(self, comp, sh):
        ctx = self.ctx
        if sh.why_irregular == 'first observed mid-life':
            return
        self.busy += 1
        try:
            case = {'history': [[m, str(v)] for m, v in sh.log]}
            ctx.count('eval.replay-state')
            # 1. action log
            try:
                d = comp.from_actions()
                if snap(d) != snap(comp):
                    ctx.violation('log-replay:differs:%s' % '+'.join(snap_diff(snap(comp), snap(d)))[:90], case, 'indistinguishable', snap_diff(snap(comp), snap(d)))
                else:
                    ctx.count('judged.log-replay')
                    # the rebuilt competition is a competition of its own: carrying on with it (a further bar, a further
                    # trial, a late entry) must not reach the one it was rebuilt from
                    before = snap(comp)
                    for m, a in (('set_bar_height', (comp.heights[-1] if comp.heights else D('1.00')) + (0.05 if comp.heights and isinstance(comp.heights[-1], float) else D('0.05'))),
                                 ('failed', sh.bibs[0] if sh.bibs else 'A'), ('add_jumper', 'late-entry'), ('retired', sh.bibs[-1] if sh.bibs else 'A')):
                        try:
                            if m == 'add_jumper':
                                add(d, a)
                            else:
                                getattr(d, m)(a)
                        except Exception:
                            pass
                    if snap(comp) != before:
                        ctx.violation('log-replay:replica-shares-state-with-the-original:%s' % '+'.join(snap_diff(before, snap(comp)))[:80], case,
                                      'original untouched', snap_diff(before, snap(comp)))
                    if len(sh.log) > 8:
                        ctx.sample('log-replay', {'history': [[m, str(v)] for m, v in sh.log], 'state': comp.state, 'refused_calls_in_between': sh.refused}, 3)
            except Exception as e:
                ctx.violation('log-replay:raises:%s' % type(e).__name__, case, 'replayable', repr(e)[:160])
            # 2. card export / import
            fine = any(('%.2f' % h) != str(h) and float('%.2f' % h) != float(h) for h in sh.heights)
            if fine:
                # the card prints bars to the centimetre: a bar set between two centimetres cannot be exported faithfully
                ctx.count('unspecified.card-round-trip-with-sub-centimetre-bar')
            elif sh.heights and not sh.jo_pass:
                try:
                    card = comp.to_matrix(['bib'])
                    card_was = attach._shape(card)
                    e = self.H.from_matrix(card)
                    ctx.count('eval.caller-owned-argument-compared')
                    if attach._shape(card) != card_was:
                        # the card belongs to whoever handed it over (a spreadsheet import is usually looked at again)
                        ctx.violation('argument-mutated:from_matrix:the-card', case, repr(card_was)[:300], repr(card)[:300])
                    if observable(e) != observable(comp):
                        ctx.violation('card-round-trip:differs', dict(case, original=repr(observable(comp))[:300]), observable(comp), observable(e))
                    else:
                        ctx.count('judged.card-round-trip')
                except Exception as ex:
                    ctx.violation('card-round-trip:raises:%s' % type(ex).__name__, case, 'importable', repr(ex)[:160])
            elif sh.jo_pass:
                ctx.count('unspecified.card-round-trip-with-pass-inside-jump-off')
            # 3. re-orderings keeping each athlete's own sequence within each bar height
            self.reorder(comp, sh, case)
        finally:
            self.busy -= 1

    def carry_on(self, c):
        """one further bar (unless a jump-off round is still open) and one attempt by every athlete; returns who was let
        through and where that leads"""
        self.busy += 1
        try:
            out = []
            last = c.heights[-1] if c.heights else D('1.00')
            step = 0.02 if isinstance(last, float) else D('0.02')
            for m, a in [('set_bar_height', round(last + step, 2) if isinstance(last, float) else last + step)] + \
                    [('cleared', j.bib) for j in sorted(c.jumpers, key=lambda j: str(j.bib))]:
                try:
                    getattr(c, m)(a)
                    out.append('accepted')
                except self.RV:
                    out.append('refused')
                except Exception as e:
                    out.append(type(e).__name__)
            return (out, observable(c))
        finally:
            self.busy -= 1

    def segments(self, sh):
        segs = []
        cur = []
        for m, v in sh.log:
            if m in ('add_jumper', 'set_bar_height'):
                if cur:
                    segs.append(('trials', cur))
                    cur = []
                segs.append((m, v))
            else:
                cur.append((m, v))
        if cur:
            segs.append(('trials', cur))
        return segs

    def reorder(self, comp, sh, case):
        ctx = self.ctx
        segs = self.segments(sh)
        per_seg = []
        total = 1
        for kind, v in segs:
            if kind != 'trials':
                continue
            per = collections.OrderedDict()
            for m, b in v:
                per.setdefault(b, []).append(m)
            n = 1
            rem = sum(len(q) for q in per.values())
            for q in per.values():
                # multinomial
                import math
                n *= math.comb(rem, len(q))
                rem -= len(q)
            total *= n
            per_seg.append(per)
        if total <= 1:
            return
        orders = []
        if total <= 60:
            # all combinations of per-segment interleavings
            seg_orders = [list(self.interleavings(per)) for per in per_seg]
            for combo in itertools.product(*seg_orders):
                orders.append(list(combo))
        else:
            for mode in ('roundrobin', 'byathlete', 'reverse'):
                orders.append([self.fixed_order(per, mode) for per in per_seg])
            for _ in range(8):
                orders.append([self.random_order(per) for per in per_seg])
        want = observable(comp)
        for order in orders:
            d = self.H()
            it = iter(order)
            ok = True
            try:
                for kind, v in segs:
                    if kind == 'add_jumper':
                        add(d, v)
                    elif kind == 'set_bar_height':
                        d.set_bar_height(v)
                    else:
                        for m, b in next(it):
                            getattr(d, m)(b)
            except self.RV as e:
                ok = False
                sig = 'interleaving:refused'
                ctx.violation(sig, dict(case, order=[[(m, b) for m, b in o] for o in order][-2:]), 'accepted', str(e)[:120])
                return
            ctx.count('eval.interleaving')
            if observable(d) == want and self.nreplay % 3 == 0:
                # the same competition, so it goes on the same way: one further bar and one attempt by everybody, applied to a
                # copy of the original and to the re-ordered rebuild (two interleavings of the same per-athlete sequences)
                o1, o2 = self.carry_on(clone(comp)), self.carry_on(d)
                ctx.count('eval.interleaving-carried-on')
                if o1 != o2:
                    ctx.violation('interleaving:same-standing-but-goes-on-differently', dict(case, order=[[(m, b) for m, b in o] for o in order][-2:]),
                                  repr(o1)[:300], repr(o2)[:300])
                    return
                continue
            if observable(d) != want:
                got = observable(d)
                what = 'state' if got[0] != want[0] else 'places-or-bests' if [x[:2] for x in got[2]] == [x[:2] for x in want[2]] else 'cards'
                ctx.violation('interleaving:different-outcome:%s' % what, dict(case, order=[[(m, b) for m, b in o] for o in order][-2:]), want, got)
                return
        ctx.count('judged.reordered-state')
        if ctx.nt(('re', tuple(sh.log))):
            ctx.sample('reordered', {'history': [[m, str(v)] for m, v in sh.log], 'orders_compared': len(orders), 'outcome': repr(want)[:200]}, 4)

    @staticmethod
    def interleavings(per):
        qs = [(b, list(q)) for b, q in per.items()]

        def rec(idx):
            if all(i == len(q) for i, (b, q) in zip(idx, qs)):
                yield []
                return
            for k, (b, q) in enumerate(qs):
                if idx[k] < len(q):
                    nxt = list(idx)
                    nxt[k] += 1
                    for rest in rec(nxt):
                        yield [(q[idx[k]], b)] + rest
        return rec([0] * len(qs))

    def random_order(self, per):
        qs = {b: list(q) for b, q in per.items()}
        out = []
        while any(qs.values()):
            b = self.rnd.choice([b for b, q in qs.items() if q])
            out.append((qs[b].pop(0), b))
        return out

    @staticmethod
    def fixed_order(per, mode):
        qs = {b: list(q) for b, q in per.items()}
        out = []
        bibs = list(qs)
        if mode == 'reverse':
            bibs = bibs[::-1]
        if mode == 'roundrobin':
            while any(qs.values()):
                for b in bibs:
                    if qs[b]:
                        out.append((qs[b].pop(0), b))
        else:
            for b in bibs:
                out.extend((m, b) for m in qs[b])
        return out


# --------------------------------------------------------------------------- explorer
BIBS = 'ABCDEF'
# start lists as callers number them: letters, integers from 0 (a falsy bib), digit strings that differ only by leading zeros
BIB_SETS = {'letters': (list('ABCDEF'), 'G'), 'int0': ([0, 1, 2, 3, 4, 5], 6), 'zeros': (['0', '00', '1', '01', '000', '001'], '10')}


class Explorer(object):
    def __init__(self, mon, rnd):
        self.mon = mon
        self.H = mon.H
        self.RV = mon.RV
        self.rnd = rnd
        self.states = 0
        self.transitions = 0
        self.refused = 0
        self.probed = 0
        self.fine_bars = False
        self.base_height = D('1.00')
        self.float_heights = False
        self.bibs = list(BIBS)        # the start list's bib vocabulary (see BIB_SETS)
        self.extra_bib = 'G'

    def use_bibs(self, name):
        self.bibs, self.extra_bib = BIB_SETS[name]

    def start(self, nj):
        c = self.H()
        for b in self.bibs[:nj]:
            add(c, b)
        return c

    def calls(self, c, nj, max_reg, max_jo, legal_only=False):
        sh = c._vf_shadow
        out = []
        last = c.heights[-1] if c.heights else None
        in_jo = c.state == 'jumpoff'
        n_jo = len(c.heights) - sh.jo_start if sh.jo_start is not None else 0
        room = (n_jo < max_jo) if in_jo else (len(c.heights) < max_reg + (0 if sh.jo_start is None else 99))
        if sh.jo_start is not None and not in_jo:
            room = n_jo < max_jo
        if room:
            if last is None:
                out += [('set_bar_height', self.base_height)] + ([] if legal_only else [('set_bar_height', D('0.00')), ('set_bar_height', D('-1.00'))])
            else:
                out.append(('set_bar_height', last + D('0.05')))
                if self.fine_bars:
                    out.append(('set_bar_height', last + D('0.004')))      # a rise of less than a centimetre is a rise
                if not legal_only or in_jo:
                    out += [('set_bar_height', last), ('set_bar_height', last - D('0.02'))]
                if in_jo and sh.jo_start is not None and sh.jo_start > 0:
                    out.append(('set_bar_height', sh.heights[sh.jo_start - 1] - D('0.12')))     # below the tied height
                    tb = self.tied_best(sh)
                    if tb is not None and ('set_bar_height', tb) not in out:
                        out.append(('set_bar_height', tb))                                       # exactly the tied best
        if not legal_only:
            out.append(('add_jumper', self.bibs[0]))
            out.append(('add_jumper', self.extra_bib))
        for b in list(sh.bibs):
            for m in TRIALS:
                out.append((m, b))
        if legal_only:
            places = {j.bib: j.place for j in c.jumpers}
            keep = []
            for m, a in out:
                if must_refuse(sh, places, m, a):
                    continue
                if m == 'passed' and in_jo:
                    continue
                if m == 'set_bar_height' and in_jo and sh.jo_participants and n_jo > 0 and \
                        any(sh.card(b) == '' and 'r' not in sh.seq(b) for b in sh.jo_participants):
                    continue
                keep.append((m, a))
            out = keep
        return out

    @staticmethod
    def tied_best(sh):
        bs = [best_ever(sh.cards, sh.heights[:sh.jo_start], b) for b in (sh.jo_initial or [])]
        bs = [b for b in bs if b > 0]
        return max(bs) if bs else None

    def apply(self, c, m, a):
        try:
            if m == 'add_jumper':
                add(c, a)
            else:
                getattr(c, m)(a)
            self.transitions += 1
            return True
        except self.RV:
            self.refused += 1
            return False
        except Exception:
            return False

    def bfs(self, nj, max_reg, max_jo, part=0, nparts=1, split_depth=3, legal_only=False, max_states=None, probe=False):
        """probe=True (with legal_only): only rule-conforming calls are expanded, but at every state every OTHER call of the
        full alphabet is applied once to a clone and judged by the monitors (deep legal histories x every illegal call)"""
        root = self.start(nj)
        # the seen-set keeps 64-bit hashes of the (snapshot, shadow phase) keys: a collision can only make the explorer
        # skip a state (less coverage), never report anything wrong
        seen = {hash((snap(root, log=False), root._vf_shadow.key()))}
        frontier = [root]
        depth = 0
        while frontier:
            if depth == split_depth and nparts > 1:
                frontier = frontier[part::nparts]
            nxt = []
            for c in frontier:
                legal = self.calls(c, nj, max_reg, max_jo, legal_only)
                if probe and legal_only:
                    for m, a in self.calls(c, nj, max_reg, max_jo, False):
                        if (m, a) not in legal:
                            self.apply(clone(c), m, a)
                            self.probed += 1
                for m, a in legal:
                    d = clone(c)
                    if not self.apply(d, m, a):
                        continue
                    k = hash((snap(d, log=False), d._vf_shadow.key()))
                    if k in seen:
                        continue
                    seen.add(k)
                    self.states += 1
                    if len(d.jumpers) > nj:
                        continue          # a late entrant was accepted (scheduled state): judged, not expanded further
                    nxt.append(d)
                    if max_states and self.states >= max_states:
                        return
            frontier = nxt
            depth += 1

    def walk(self, nj, maxlen=120, legal_bias=0.8, max_reg=4, max_jo=3):
        c = self.H()
        sh = self.mon.shadow(c)
        bibs = list(self.bibs[:nj])
        rnd = self.rnd
        for step in range(maxlen):
            r = rnd.random()
            if not sh.bibs or (not sh.heights and len(sh.bibs) < nj and r < 0.7):
                m = 'add_jumper'
                a = rnd.choice([b for b in bibs if b not in sh.bibs] or bibs) if r < 0.65 else rnd.choice(bibs)
            elif r < 0.22 or not sh.heights:
                m = 'set_bar_height'
                if self.float_heights:
                    # bars set with floats, as the repository's own tests do; one-centimetre steps
                    if sh.heights:
                        a = round(sh.heights[-1] + rnd.choice([0.01, 0.01, 0.01, 0.02, 0.05, 0.0, -0.02]), 2)
                    else:
                        a = rnd.choice([2.00, 2.04, 2.28, 1.12, 4.59, 5.05, 1.99, 0.57, 1.00])
                elif sh.heights:
                    a = sh.heights[-1] + rnd.choice([D('0.05'), D('0.05'), D('0.03'), D('0.01'), D('0.004'), D('0'), D('-0.02'), D('-0.10')])
                else:
                    a = rnd.choice([D('1.00'), D('1.50'), D('0.00'), D('1.20'), D('9.90'), D('99.95'), D('181.00'), D('0.50'), D('1.9812')])
            elif r < 0.26:
                m = 'add_jumper'
                a = rnd.choice(bibs + [self.extra_bib])
            else:
                m = rnd.choice(['cleared', 'failed', 'failed', 'failed', 'passed', 'retired'] if rnd.random() < 0.9 else ['retired', 'passed'])
                a = rnd.choice(sh.bibs)
                if rnd.random() < legal_bias:
                    # prefer a call the rule book allows
                    places = {j.bib: j.place for j in c.jumpers}
                    ok = [(mm, b) for b in sh.bibs for mm in ('cleared', 'failed', 'failed', 'passed', 'retired')
                          if not must_refuse(sh, places, mm, b)]
                    if ok:
                        m, a = rnd.choice(ok)
            self.apply(c, m, a)
            if c.state in ('finished', 'drawn') and rnd.random() < 0.5:
                break
        self.states += 1
        return c

    def walk_probe(self, nj, maxlen=60, max_reg=4, max_jo=3, jumpoff_prefix=False):
        """A random rule-conforming history (deep: several heights, eliminations at different heights, jump-offs) with
        every OTHER call of the alphabet probed on a clone at every step."""
        rnd = self.rnd
        self.base_height = rnd.choice([D('1.00'), D('1.00'), D('2.28'), D('9.90'), D('1.9812'), D('181.00')])
        self.fine_bars = rnd.random() < 0.5
        c = self.start(nj)
        sh = c._vf_shadow
        if jumpoff_prefix:
            # go straight to a jump-off: everybody clears the first height, then everybody (or all but a retiring /
            # earlier-eliminated one) fails out at the second
            h = self.base_height
            self.apply(c, 'set_bar_height', h)
            for b in list(sh.bibs):
                self.apply(c, rnd.choice(['cleared', 'cleared', 'cleared', 'failed']), b)
            for b in list(sh.bibs):
                if sh.card(b) == 'x':
                    self.apply(c, 'cleared', b)
            self.apply(c, 'set_bar_height', h + D('0.05'))
            for b in list(sh.bibs):
                for k in range(3):
                    if c.state in ('started',):
                        self.apply(c, 'failed', b)
        for step in range(maxlen):
            legal = self.calls(c, nj, max_reg, max_jo, True)
            for m, a in self.calls(c, nj, max_reg, max_jo, False):
                if (m, a) not in legal:
                    self.apply(clone(c), m, a)
                    self.probed += 1
            if c.state == 'jumpoff' and rnd.random() < (0.45 if jumpoff_prefix else 0.3):
                places = {j.bib: j.place for j in c.jumpers}
                openmoves = [(m, a) for (m, a) in self.calls(c, nj, max_reg, max_jo, False)
                             if (m, a) not in legal and m in ('passed', 'set_bar_height') and not must_refuse(sh, places, m, a)]
                if openmoves:
                    m, a = rnd.choice(openmoves)
                    self.apply(c, m, a)
                    continue
            if not legal:
                break
            trials = [x for x in legal if x[0] != 'set_bar_height']
            bars = [x for x in legal if x[0] == 'set_bar_height']
            # keep jumping at a height most of the time; failures are the most frequent outcome
            if trials and (not bars or rnd.random() < 0.8):
                w = {'failed': 5, 'cleared': 3, 'passed': 1, 'retired': 0.5}
                m, a = rnd.choices(trials, weights=[w[x[0]] for x in trials])[0]
            else:
                m, a = rnd.choice(bars)
            self.apply(c, m, a)
            if c.state in ('finished', 'drawn'):
                for m, a in self.calls(c, nj, max_reg + 1, max_jo + 1, False):
                    self.apply(clone(c), m, a)
                    self.probed += 1
                break
        self.states += 1
        return c

    def jumpoff_scenario(self, nj, max_jo=3, scripted=False, passes=False, probe_outsiders=False):
        """A rule-conforming competition built to end in a jump-off: K athletes with identical cards tie for first, the
        others have the same best with more failures, a lower best or no clearance; then up to max_jo jump-off heights with
        the bar at, next to, below or above the tied best and random single attempts until it is decided."""
        rnd = self.rnd
        c = self.start(nj)
        sh = c._vf_shadow
        bibs = list(sh.bibs)
        rnd.shuffle(bibs)
        K = rnd.randrange(2, nj + 1)
        leaders, others = bibs[:K], bibs[K:]
        nreg = rnd.choice([2, 2, 3])
        lead_card = [rnd.choice(['o', 'o', 'xo', '']) for _ in range(nreg - 1)] + [rnd.choice(['o', 'o', 'xo'])]
        cards = {b: list(lead_card) for b in leaders}
        for b in others:
            kind = rnd.choice(['same-best-more-failures', 'same-best-more-failures', 'lower-best', 'no-clearance', 'retires'])
            cd = list(lead_card)
            if kind == 'same-best-more-failures':
                i = rnd.randrange(nreg)
                cd[i] = {'o': rnd.choice(['xo', 'xxo']), 'xo': 'xxo', '': 'xo'}.get(cd[i], cd[i]) if i < nreg - 1 or cd[i] == 'o' else 'xxo'
                if cd == lead_card:
                    cd[0] = 'xo' if cd[0] in ('o', '') else 'xxo'
            elif kind == 'lower-best':
                cd[-1] = 'xxx'
            elif kind == 'no-clearance':
                cd = ['xxx']
            else:
                cd[-1] = rnd.choice(['r', 'xr'])
            cards[b] = cd
        h = rnd.choice([D('1.80'), D('1.00'), D('2.10')])
        order = list(sh.bibs)
        for i in range(nreg):
            self.apply(c, 'set_bar_height', h)
            plan = {b: list(cards[b][i]) if i < len(cards[b]) else [] for b in order}
            while any(plan.values()):
                if rnd.random() < 0.06:
                    # an official enters a trial for somebody who may not jump just now (through with this bar, out, retired): refused,
                    # caught, and nothing may be left behind by it - not even a counter that only matters at the next clearance
                    places_now = {j.bib: j.place for j in c.jumpers}
                    barred = [x for x in sh.bibs if must_refuse(sh, places_now, 'failed', x)]
                    if barred:
                        self.apply(c, rnd.choice(['failed', 'failed', 'cleared', 'passed', 'retired']), rnd.choice(barred))
                b = rnd.choice([b for b, q in plan.items() if q])
                t = plan[b].pop(0)
                self.apply(c, {'o': 'cleared', 'x': 'failed', 'r': 'retired'}[t], b)
            h += rnd.choice([D('0.05'), D('0.03')])
        self.apply(c, 'set_bar_height', h)
        for k in range(3):
            for b in order:
                if c.state == 'started' and not must_refuse(sh, {j.bib: j.place for j in c.jumpers}, 'failed', b):
                    self.apply(c, 'failed', b)
        for rnd_no in range(max_jo):
            if c.state != 'jumpoff':
                break
            tb = self.tied_best(sh) or h
            bar = rnd.choice([tb, tb, tb + D('0.01'), tb - D('0.02'), c.heights[-1], c.heights[-1] - D('0.02'), c.heights[-1] + D('0.02'), tb + D('0.02')])
            if scripted and rnd.random() < 0.8:
                # a long jump-off whose bars never separate the bests (at or below the tied best): who is still in depends
                # on the jump-off rounds alone
                bar = rnd.choice([tb, tb, tb - D('0.02'), tb - D('0.05'), min(tb, c.heights[-1]), min(tb, c.heights[-1] - D('0.02'))])
            if bar <= 0 or not self.apply(c, 'set_bar_height', bar):
                break
            parts = list(sh.jo_participants or [])
            if not parts and probe_outsiders and c.state == 'jumpoff' and not sh.irregular:
                # the rule book says nobody is left, the competition still says jump-off: whoever tries now must be refused
                for b in list(sh.bibs):
                    self.apply(c, rnd.choice(['cleared', 'failed', 'retired']), b)
                break
            if passes and sh.jo_pass:
                # after a pass inside the jump-off the rule book no longer says who is in: ask the competition itself
                parts = [j.bib for j in c.remaining]
            rnd.shuffle(parts)
            if scripted and len(parts) >= 2:
                # round patterns: all clear / some (not all) fail and are knocked out / all fail / all retire
                r = rnd.random()
                if passes and r < 0.25:
                    # one passes the bar the others clear (the code accepts it), then see who is still in
                    marks = ['passed'] + ['cleared'] * (len(parts) - 1)
                    rnd.shuffle(marks)
                elif r < 0.35:
                    marks = ['cleared'] * len(parts)
                elif r < 0.75:
                    k = rnd.randrange(1, len(parts))
                    marks = ['failed'] * k + ['cleared'] * (len(parts) - k)
                elif r < 0.86:
                    marks = ['failed'] * len(parts)
                elif r < 0.93:
                    marks = ['retired'] * len(parts)         # everybody still in gives up: drawn among them
                else:
                    marks = [rnd.choice(['retired', 'failed']) for _ in parts]
                for b, m in zip(parts, marks):
                    if c.state != 'jumpoff':
                        break
                    if not must_refuse(sh, {j.bib: j.place for j in c.jumpers}, m, b) or m == 'passed' or (passes and sh.jo_pass):
                        self.apply(c, m, b)
                if probe_outsiders and c.state == 'jumpoff':
                    # everybody who is not (or no longer) in the jump-off tries to jump: refused, and nothing changes
                    for b in list(sh.bibs):
                        if b not in (sh.jo_participants or []):
                            self.apply(c, rnd.choice(['cleared', 'failed', 'passed', 'retired']), b)
                continue
            for b in parts:
                if c.state != 'jumpoff':
                    break
                m = rnd.choice(['cleared', 'cleared', 'failed', 'failed', 'retired'] if rnd_no else ['cleared', 'cleared', 'cleared', 'failed'])
                if passes and rnd.random() < 0.2:
                    # the code accepts a pass inside a jump-off; what it means is left open by the rule text, but the log,
                    # the card and the jumping order must still rebuild whatever it leads to
                    m = 'passed'
                if not must_refuse(sh, {j.bib: j.place for j in c.jumpers}, m, b) or m == 'passed':
                    self.apply(c, m, b)
        if c.state == 'jumpoff':
            for b in list(sh.jo_participants or []):
                if not must_refuse(sh, {j.bib: j.place for j in c.jumpers}, 'retired', b):
                    self.apply(c, 'retired', b)
        if probe_outsiders and c.state == 'jumpoff':
            # still a jump-off after everybody the rule book knows of has retired (or after a pass left the rule book without an
            # opinion): whoever has retired stays out whatever else is unclear - a new bar, then everybody who retired tries to jump
            self.apply(c, 'set_bar_height', c.heights[-1] + D('0.01'))
            for b in list(sh.bibs):
                if 'r' in sh.seq(b):
                    self.apply(c, rnd.choice(['cleared', 'failed']), b)
        self.states += 1
        return c

    def complete(self, nj, max_reg=4, max_jo=3):
        """A rule-conforming complete competition from per-height attempt strings."""
        rnd = self.rnd
        c = self.H()
        sh = self.mon.shadow(c)
        for b in self.bibs[:nj]:
            add(c, b)
        h = D('1.00')
        strings = ['o', 'o', 'xo', 'xxo', 'xxx', 'x-', 'xx-', '-', 'r', 'xr', 'xxr', 'x', 'xx', '']
        for step in range(40):
            if c.state in ('finished', 'drawn'):
                break
            in_jo = c.state == 'jumpoff'
            if in_jo:
                n_jo = len(c.heights) - sh.jo_start
                if n_jo >= max_jo:
                    # force a decision: everyone retires
                    for b in list(sh.jo_participants or []):
                        self.apply(c, 'retired', b)
                    break
                F = (lambda x: float(x)) if self.float_heights else (lambda x: x)
                h = c.heights[-1] + F(rnd.choice([D('0.02'), D('0'), D('-0.02'), D('-0.10'), D('0.05')]))
                tb = self.tied_best(sh)
                if tb is not None and rnd.random() < 0.3:
                    h = tb + F(rnd.choice([D('0'), D('0'), D('0.01'), D('-0.01')]))        # at / next to the tied best
                if self.float_heights:
                    h = round(h, 2)
                if h <= 0:
                    h = F(D('0.50'))
            else:
                if len(c.heights) >= max_reg and c.state != 'won':
                    # last regular height: everybody still in fails out or retires
                    pass
                if not self.float_heights:
                    h = (c.heights[-1] + rnd.choice([D('0.05'), D('0.05'), D('0.03'), D('0.01')])) if c.heights else \
                        rnd.choice([D('1.00'), D('1.00'), D('2.10'), D('4.40'), D('9.90'), D('9.96'), D('99.95'), D('181.00'), D('0.50')])
                else:
                    # bars given as floats, as the repository's own tests do; mostly one-centimetre steps (100 * 2.01 is
                    # 200.99999999999997: a comparison in truncated centimetres loses such a rise)
                    h = round(c.heights[-1] + rnd.choice([0.01, 0.01, 0.01, 0.02, 0.03, 0.05]), 2) if c.heights else \
                        rnd.choice([2.00, 2.00, 2.02, 2.04, 2.25, 2.27, 2.29, 1.12, 1.10, 4.59, 5.05, 1.99, 0.57, 1.00])
            if not self.apply(c, 'set_bar_height', h):
                break
            places = {j.bib: j.place for j in c.jumpers}
            plan = {}
            for b in sh.bibs:
                if must_refuse(sh, places, 'failed', b):
                    continue
                if in_jo:
                    plan[b] = list(rnd.choice(['o', 'x', 'x', 'r']))
                else:
                    s = rnd.choice(strings)
                    if len(c.heights) >= max_reg and s in ('o', 'xo', 'xxo', '-', 'x-', 'xx-', 'x', 'xx', ''):
                        s = rnd.choice(['xxx', 'r', 'xr', 'xxx', 'xxr'])
                    plan[b] = list(s)
            # jumping order: random interleaving of the athletes' sequences
            while any(plan.values()):
                if not in_jo and rnd.random() < 0.04 and c.state == 'started':
                    # an official mistypes the next bar (1.57 for 1.75): refused, and nothing may be left behind by it
                    self.apply(c, 'set_bar_height', round(c.heights[-1] - float(rnd.choice([D('0.18'), D('0.05'), D('0'), D('1.00')])), 2) if self.float_heights
                               else c.heights[-1] - rnd.choice([D('0.18'), D('0.05'), D('0'), D('1.00')]))
                b = rnd.choice([b for b, q in plan.items() if q])
                t = plan[b].pop(0)
                m = {'o': 'cleared', 'x': 'failed', '-': 'passed', 'r': 'retired'}[t]
                pl = {j.bib: j.place for j in c.jumpers}
                if must_refuse(sh, pl, m, b):
                    plan[b] = []
                    continue
                self.apply(c, m, b)
        self.states += 1
        return c
