"""Fresh-interpreter reference: python -m vf.fresh  OUT  (pickled list of (label, args, kwargs) on stdin -> pickled outcome keys in OUT)

Used by attach.fresh_compare(): a sample of the distinct calls a shard made - with the answer each got FIRST in that shard,
i.e. after whatever history the workload had built up by then - is issued again in a new interpreter that has seen nothing
else.  A memo poisoned before the first proper call (a folded key, a table row edited in place) cannot be seen by comparing
a call with its own first answer; it is seen here."""
import importlib
import json
import os
import pickle
import sys


def resolve(label):
    mod, _, name = label.rpartition('.')
    return getattr(importlib.import_module(mod), name)


def main():
    from . import attach, core
    core.import_athlib()
    amb = json.loads(os.environ.get('VERIF_AMBIENT') or 'null')
    calls = pickle.load(sys.stdin.buffer)
    if amb and amb.get('warnings'):
        import warnings
        warnings.filterwarnings('error', module=r'(athlib|vf)(\.|$)')
    out = []
    fns = {}
    for label, a, k in calls:
        try:
            fn = fns.get(label) or fns.setdefault(label, resolve(label))
        except Exception as e:      # noqa
            out.append('unresolved %s' % type(e).__name__)
            continue
        out.append(attach.Determinism.outcome_key(attach.call(fn, *a, **k)))
    with open(sys.argv[1], 'wb') as f:       # not stdout: verbose options of the library print
        pickle.dump(out, f)


if __name__ == '__main__':
    main()
