"""One shard in a fresh interpreter: python -m vf.worker PROP TIER SEED SPEC OUT [REPLAYFILE]"""
import importlib
import json
import sys

from . import core, cover


def main():
    prop, tier, seed, spec, out = sys.argv[1:6]
    replay = sys.argv[6] if len(sys.argv) > 6 else None
    spec = json.loads(spec)
    ctx = core.Ctx(prop, tier, int(seed), shard=spec, replay=bool(replay))
    cover.start()          # before athlib is imported: line coverage of the anchored functions (report only)
    core.import_athlib()
    mod = importlib.import_module('vf.props.%s' % prop.lower())
    if replay:
        with open(replay) as f:
            r = json.load(f)
        print('replaying %d witnesses of %s [%s] against %s' % (len(r['witnesses']), prop, r['key'], core.REPO))
        mod.replay(ctx, [core.unjson(w['case']) for w in r['witnesses']])
    else:
        mod.run_shard(ctx, spec)
    d = ctx.dump()
    d['cover'] = cover.collected()
    with open(out, 'w') as f:
        json.dump(d, f)


if __name__ == '__main__':
    main()
