"""One shard in a fresh interpreter: python -m vf.worker PROP TIER SEED SPEC OUT [REPLAYFILE]"""
import importlib
import json
import sys

from . import core, cover


def main():
    prop, tier, seed, spec, out = sys.argv[1:6]
    replay = sys.argv[6] if len(sys.argv) > 6 else None
    spec = json.loads(spec)
    ctx = core.Ctx(prop, tier, int(seed), shard=spec, replay=bool(replay))
    import os
    ctx.ambient = json.loads(os.environ.get('VERIF_AMBIENT') or 'null')
    if ctx.ambient:
        ctx.counters['ambient.hashseed-%s' % ctx.ambient['hashseed']] += 1
        ctx.counters['ambient.python-O' if ctx.ambient.get('optimize') else 'ambient.asserts-on'] += 1
        ctx.counters['ambient.cwd-%s' % ('verif' if ctx.ambient['cwd'] == core.VERIF else 'repo' if ctx.ambient['cwd'] == core.REPO else 'root')] += 1
    if ctx.ambient and ctx.ambient.get('env'):
        ctx.counters['ambient.env-%s' % ctx.ambient['env']] += 1
        if ctx.ambient['env'] == 'debug-logging':
            import logging
            logging.basicConfig(level=logging.DEBUG, handlers=[logging.NullHandler()])
    cover.start()          # before athlib is imported: line coverage of the anchored functions (report only)
    core.import_athlib()
    mod = importlib.import_module('vf.props.%s' % prop.lower())
    if ctx.ambient and ctx.ambient.get('warnings'):
        # after the imports: only what the library warns about while it is used counts
        import warnings
        # ... or to its caller (stacklevel=2 attributes a deprecation notice to the calling module, here the harness)
        warnings.filterwarnings('error', module=r'(athlib|vf)(\.|$)')
        ctx.counters['ambient.athlib-warnings-are-errors'] += 1
    if replay:
        with open(replay) as f:
            r = json.load(f)
        print('replaying %d witnesses of %s [%s] against %s' % (len(r['witnesses']), prop, r['key'], core.REPO))
        from . import attach
        for w in r['witnesses']:
            if w.get('decimal_context'):
                attach.AMB['force'] = w['decimal_context']
                print('  (the real calls run under the decimal context %s, as in the witness)' % w['decimal_context'])
                break
        mod.replay(ctx, [core.unjson(w['case']) for w in r['witnesses']])
    else:
        from . import attach
        import random
        if not getattr(mod, 'NO_DETERMINISM', False):
            attach.DET['ctx'] = ctx
        attach.AMB['on'] = not getattr(mod, 'NO_DECIMAL_CONTEXT', False) and os.environ.get('VERIF_NO_DECIMAL_CONTEXT') != '1'
        if ctx.ambient and ctx.ambient.get('thread') and not getattr(mod, 'NO_WORKER_THREAD', False):
            import threading
            box = []

            def body():
                try:
                    mod.run_shard(ctx, spec)
                except BaseException as e:       # noqa - re-raised in the main thread below
                    box.append(e)
            threading.stack_size(256 * 1024 * 1024)
            t = threading.Thread(target=body, name='shard-workload')
            t.start()
            t.join()
            ctx.counters['ambient.workload-in-a-thread-of-its-own'] += 1
            if box:
                raise box[0]
        else:
            mod.run_shard(ctx, spec)
        if attach.DET['recs']:
            attach.replay_recorded(random.Random(int(seed) * 7 + 1))
            attach.replay_recorded(random.Random(int(seed) * 7 + 2))
            if not getattr(mod, 'NO_FRESH_REFERENCE', False):
                attach.fresh_compare(ctx, random.Random(int(seed) * 7 + 3))
    d = ctx.dump()
    d['cover'] = cover.collected()
    with open(out, 'w') as f:
        json.dump(d, f)


if __name__ == '__main__':
    main()
