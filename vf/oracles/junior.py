"""Exact-arithmetic references for Tyrving, QuadKids, Sportshall and Bulgarian U16 scoring
(C05, C11, C18).  Rational arithmetic on the decimal literals of the embedded tables; marks are
integers of hundredths (or of the event's natural unit)."""
import math
import re
from decimal import Decimal as D
from fractions import Fraction as F


def fr(x):
    """Decimal literal of a table number as an exact Fraction."""
    if isinstance(x, float):
        return F(D(repr(x)))
    if isinstance(x, str):
        return F(D(x))
    return F(x)


# ---------------------------------------------------------------- Tyrving
def tyr_base(age, yv):
    if isinstance(yv, dict):
        return yv.get(age)
    y, v = yv
    return v[age - y] if y <= age < y + len(v) else None


def tyr_ages(kind, args):
    yv = args[2] if kind == 'race' else args[1] if kind == 'jump' else args[1][0]
    if isinstance(yv, dict):
        return sorted(yv)
    return list(range(yv[0], yv[0] + len(yv[1])))


def tyr_base_perf(kind, args, age):
    yv = args[2] if kind == 'race' else args[1] if kind == 'jump' else args[1][0]
    return tyr_base(age, yv)


def tyr_manual_inc(dist):
    return F(24, 100) if dist in (100, 110, 200) else F(20, 100) if dist in (40, 60, 80, 300) else F(14, 100) if dist == 400 else F(0)


def tyrving(kind, args, age, v, manual=False):
    """v: Fraction (seconds or metres).  Returns points or None when the age is not tabulated."""
    if kind == 'race':
        dist, mult, yv = args
        b = tyr_base(age, yv)
        if b is None:
            return None
        if manual:
            v = v + tyr_manual_inc(dist)
        return max(0, math.floor(1000 + (fr(b) - v) * fr(mult) * (100 if dist <= 500 else 10)))
    if kind == 'jump':
        mult, yv = args
        b = tyr_base(age, yv)
        if b is None:
            return None
        return max(0, math.floor(1000 + fr(mult) * (v - fr(b)) * 100))
    mults, yvs = args
    lv = [tyr_base(age, yv) for yv in yvs]
    if None in lv:
        return None
    d0 = 100 * (v - fr(lv[0]))
    d1 = 100 * (v - fr(lv[1]))
    if d0 >= 0:
        r = 1000 + d0 * fr(mults[0])
    elif d1 > 0:
        r = 1000 + d0 * fr(mults[1])
    else:
        r = d1 * fr(mults[2]) + fr(lv[2])
    return max(0, math.floor(r))


# ---------------------------------------------------------------- QuadKids
def qkids(row, v, timed):
    inc, p10 = fr(row[0]), fr(row[1])
    delta = (p10 - v) if timed else (v - p10)
    return max(10, min(100, math.floor(delta / inc + 10)))


# ---------------------------------------------------------------- Sportshall
HIGH = ('SLJ', 'SHJ', 'STJ', 'SP', 'BAL', 'SPB', 'TART', 'OHT', 'CHT', 'JT')


class Sportshall(object):
    def __init__(self, rawdata):
        cols = list(zip(*rawdata))
        keys = cols[0]
        self.events = {}
        for col in cols[1:]:
            d = dict(zip(keys, col))
            code = d['code']
            thr = []
            for p in range(1, 81):
                t = d[str(p)]
                if t == '-':
                    continue
                thr.append((p, D(t) / 100 if code == 'SHJ' else D(t)))      # SHJ tabulated in centimetres
            inc = d['increment']
            m = re.match(r'^([0-9.]+)\s*(cm|sec|m)$', inc)
            if m:
                incv = D(m.group(1)) / 100 if m.group(2) == 'cm' else D(m.group(1))
            elif re.match(r'^1 no\.?$', inc):
                incv = D(1)
            else:
                incv = None
            incp = int(d['incpoints']) if d['incpoints'] not in ('n/a', '') else 0
            unit = d['units']
            step = D('0.01') if unit in ('mtrs', 'cms', 'secs') else D(1)
            self.events[code] = dict(high=code in HIGH, thr=thr, inc=incv, incp=incp, unit=unit, step=step, inctext=inc)

    def score(self, code, x):
        """x: Decimal mark in the unit of the public function (metres / seconds / count)."""
        e = self.events[code]
        thr = e['thr']
        maxp, maxv = thr[-1]
        if e['high']:
            if x > maxv:
                return maxp + (int((x - maxv) // e['inc']) * e['incp'] if e['inc'] else 0)
            ok = [p for p, v in thr if x >= v]
        else:
            if x < maxv:
                return maxp + (int((maxv - x) // e['inc']) * e['incp'] if e['inc'] else 0)
            ok = [p for p, v in thr if x <= v]
        return max(ok) if ok else 0


# ---------------------------------------------------------------- Bulgarian
BG_FIELD = ('SP', 'LJ', 'HJ')
BG_TIMED = ('60', '100', '200', '600', '800', '60H', '100H')


def bulgarian(table, event, n):
    """n: integer hundredths."""
    if event in BG_FIELD:
        if n < table['min']:
            return 0
        if n > table['max']:
            return 150
        return table[n]
    if event in BG_TIMED:
        if n > table['min']:
            return 0
        if n < table['max']:
            return 150
        return table[n]
    return 0
