"""Rule-text reference for UK age groups (rules 107, 207, 507 as kept in the module's text).
Own date arithmetic; no dateutil."""
import datetime


def leap(y):
    return y % 4 == 0 and (y % 100 != 0 or y % 400 == 0)


def completed_years(birth, on):
    """Age in completed years; a 29 Feb birthday counts on 28 Feb in common years."""
    bm, bd = birth.month, birth.day
    if (bm, bd) == (2, 29) and not leap(on.year):
        bd = 28
    return on.year - birth.year - (1 if (on.month, on.day) < (bm, bd) else 0)


def masters(age_day, vets):
    if age_day >= 35 and vets:
        return 'V%02d' % (5 * (age_day // 5))
    return 'SEN'


def tf(birth, match, vets=True, underage=False):
    """Rule 107.  Returns (group, asserted): asserted is False for 1 Oct-31 Dec, where 'the 31st
    August within the competition year' (1 Oct - 30 Sep) is next calendar year's."""
    asserted = (match.month, match.day) <= (9, 30)
    a_aug = completed_years(birth, datetime.date(match.year, 8, 31))
    a_dec = completed_years(birth, datetime.date(match.year, 12, 31))
    a_day = completed_years(birth, match)
    if a_aug < 11:
        g = 'U9' if (underage and a_aug < 9) else 'U11'
    elif a_aug <= 12:
        g = 'U13'
    elif a_aug <= 14:
        g = 'U15'
    elif a_aug <= 16:
        g = 'U17'
    elif a_dec < 20:
        g = 'U20'
    else:
        g = masters(a_day, vets)
    return g, asserted


def road_xc(birth, match, category, vets=True, underage=False):
    """Rules 207 (road: year from 1 Sep) / 507 (XC: year from 1 Oct).  The cut-off is the 31 Aug
    before the competition year commenced."""
    start_month = 9 if category == 'ROAD' else 10
    ystart = match.year if (match.month, match.day) >= (start_month, 1) else match.year - 1
    cutoff = datetime.date(ystart, 8, 31)
    a_aug = completed_years(birth, cutoff)
    a_day = completed_years(birth, match)
    if a_day < 11:
        g = 'U9' if (underage and a_day < 9) else 'U11'
    elif a_aug <= 12:
        g = 'U13'
    elif a_aug <= 14:
        g = 'U15'
    elif a_aug <= 16:
        g = 'U17'
    elif a_aug <= 19:
        g = 'U20'
    else:
        g = masters(a_day, vets)
    return g, True


ORDER = ['U9', 'U11', 'U13', 'U15', 'U17', 'U20', 'SEN']


def rank(group):
    if group in ORDER:
        return ORDER.index(group)
    if group.startswith('V') and group[1:].isdigit():
        return 100 + int(group[1:])
    return None
