"""Exact-arithmetic reference for the World Athletics combined-events formula (C01, C09).

Written from the property statement and the published coefficients, not from the code:
coefficients are decimal literals, the mark is an integer number of hundredths, the age
factor is an own five-year-band lookup in the combined-events factor file.
"""
import json
import math
import os
from decimal import Decimal, getcontext, ROUND_FLOOR, ROUND_CEILING
from fractions import Fraction

# Published coefficients (A, Z, X) as decimal literals.  kind: t=time s, j=jump (cm), w=throw (m)
PUBLISHED = {
    ('M', '60'): ('58.015', '11.5', '1.81'), ('M', '100'): ('25.4347', '18.0', '1.81'),
    ('M', '200'): ('5.8425', '38.0', '1.81'), ('M', '400'): ('1.53775', '82.0', '1.81'),
    ('M', '600'): ('0.42088', '94.5', '1.85'), ('M', '800'): ('0.13279', '235.0', '1.85'),
    ('M', '1000'): ('0.08713', '305.5', '1.85'), ('M', '1500'): ('0.03768', '480.0', '1.85'),
    ('M', '3000'): ('0.0105', '1005.0', '1.85'), ('M', '5000'): ('0.00419', '1680.0', '1.85'),
    ('M', '10000'): ('0.000415', '4245.0', '1.9'), ('M', '60H'): ('20.5173', '15.5', '1.92'),
    ('M', '110H'): ('5.74352', '28.5', '1.92'), ('M', '200H'): ('3.495', '45.5', '1.81'),
    ('M', '400H'): ('1.1466', '92.0', '1.81'), ('M', '3000SC'): ('0.00511', '1155', '1.9'),
    ('M', 'LJ'): ('0.14354', '220.0', '1.4'), ('M', 'TJ'): ('0.06533', '640.0', '1.4'),
    ('M', 'HJ'): ('0.8465', '75.0', '1.42'), ('M', 'PV'): ('0.2797', '100.0', '1.35'),
    ('M', 'SP'): ('51.39', '1.5', '1.05'), ('M', 'HT'): ('13.0941', '5.5', '1.05'),
    ('M', 'DT'): ('12.91', '4.0', '1.1'), ('M', 'JT'): ('10.14', '7.0', '1.08'),
    ('M', 'WT'): ('47.8338', '1.5', '1.05'),
    ('F', '100'): ('17.857', '21.0', '1.81'), ('F', '200'): ('4.99087', '42.5', '1.81'),
    ('F', '400'): ('1.34285', '91.7', '1.81'), ('F', '800'): ('0.11193', '254.0', '1.88'),
    ('F', '1500'): ('0.02883', '535.0', '1.88'), ('F', '3000'): ('0.00683', '1150.0', '1.88'),
    ('F', '5000'): ('0.00272', '1920.0', '1.88'), ('F', '10000'): ('0.000369', '4920.0', '1.88'),
    ('F', '100H'): ('9.23076', '26.7', '1.835'), ('F', '200H'): ('2.975', '52.0', '1.81'),
    ('F', '400H'): ('0.99674', '103.0', '1.81'), ('F', '3000SC'): ('0.00408', '1320.0', '1.9'),
    ('F', 'LJ'): ('0.188807', '210.0', '1.41'), ('F', 'TJ'): ('0.08559', '600.0', '1.41'),
    ('F', 'HJ'): ('1.84523', '75.0', '1.348'), ('F', 'PV'): ('0.44125', '100.0', '1.35'),
    ('F', 'SP'): ('56.0211', '1.5', '1.05'), ('F', 'HT'): ('13.3174', '5.0', '1.05'),
    ('F', 'DT'): ('12.331', '3.0', '1.1'), ('F', 'JT'): ('15.9803', '3.8', '1.04'),
    ('F', '60'): ('46.0849', '13.0', '1.81'), ('F', '60H'): ('20.0479', '17.0', '1.835'),
    ('F', 'WT'): ('44.2593', '1.5', '1.05'),
}
ESAA_M800 = ('0.232', '200.0', '1.85')
JUMPS = ('HJ', 'PV', 'LJ', 'TJ')
THROWS = ('SP', 'HT', 'DT', 'JT', 'WT')


def kind_of(event):
    if event in JUMPS:
        return 'j'
    if event in THROWS:
        return 'w'
    return 't'


def live_rows(mod):
    """Rows of the live table: {(G, EVENT): (A, Z, X) as decimal literal strings}."""
    rows = {}
    for o in mod._scoring_table:
        rows[(o['gender'], o['event_code'])] = (repr(o['A']), repr(o['Z']), repr(o['X']))
    return rows


def coefficients(gender, event, live, esaa=False):
    """Published coefficients for a row; a row added to the live table that the published
    list does not know is taken from the live table (formula clause still applies)."""
    key = (gender, event)
    if key == ('M', '800') and esaa:
        return ESAA_M800
    if key in PUBLISHED:
        return PUBLISHED[key] if key in live else None
    return live.get(key)


_AGE = None


def age_table(repo):
    global _AGE
    if _AGE is None:
        with open(os.path.join(repo, 'athlib', 'wma', 'wma-athlons-data.json'), encoding='utf-8') as f:
            _AGE = json.load(f, parse_float=lambda s: s, parse_int=lambda s: s)
    return _AGE


def factor_event(event):
    """Row of the age-factor table used for an event (hurdles collapse to SH / LH)."""
    if event.endswith('H') and event not in ('LH', 'SH', '60H'):
        d = int(event[:-1])
        if d <= 110:
            return 'SH'
        if d >= 200:
            return 'LH'
        return None
    return event


def age_factor(repo, gender, event, age):
    """Decimal factor, Decimal(1) below the first masters band, or None when the event has
    no row in the factor table (the property leaves that case open)."""
    band = 5 * (int(age) // 5)
    tab = age_table(repo)
    ages = [int(a) for a in tab['ages']]       # 30,35,...  column i of a row <-> ages[i]
    first = ages[1]
    if band < first:
        return Decimal(1)
    fe = factor_event(event)
    row = None
    for r in tab[gender.lower()]:
        if r[0] == fe:
            row = r
    if row is None:
        return None
    idx = min((band - ages[0]) // 5, len(row) - 1)
    return Decimal(row[idx])


getcontext().prec = 60


def _pow_floor(A, base, X):
    """floor(A * base**X) for Decimal A, base>0, X; float fast path with guard band."""
    v = float(A) * (float(base) ** float(X))
    fl = math.floor(v)
    frac = v - fl
    tol = 1e-6 * max(1.0, abs(v)) * 1e-3
    if tol < frac < 1 - tol and v < 1e12:
        return int(fl)
    exact = A * (X * base.ln()).exp()
    return int(exact.to_integral_value(rounding=ROUND_FLOOR))


def exact_score(repo, live, gender, event, n_hundredths, age=None, esaa=False):
    """Returns ('points', int) | ('none',) | ('unspecified', reason)."""
    ev = event
    if gender == 'F' and ev == '80H':
        ev = '100H'
    elif gender == 'M' and ev in ('80H', '100H'):
        ev = '110H'
    co = coefficients(gender, ev, live, esaa)
    if co is None:
        return ('none',)
    A, Z, X = (Decimal(c) for c in co)
    f = Decimal(1)
    if age:
        f = age_factor(repo, gender, event, age)
        if f is None:
            return ('unspecified', 'no age-factor row for %s' % event)
    k = kind_of(ev)
    x = Decimal(n_hundredths) * f            # in hundredths, exact
    if k == 't':
        h = int(x.to_integral_value(rounding=ROUND_CEILING))     # times rounded up
        m = Decimal(h) / 100
        if not m < Z:
            return ('points', 0)
        return ('points', max(0, _pow_floor(A, Z - m, X)))
    h = int(x.to_integral_value(rounding=ROUND_FLOOR))           # distances rounded down
    m = Decimal(h) if k == 'j' else Decimal(h) / 100             # jumps are scored in cm
    if not m > Z:
        return ('points', 0)
    return ('points', max(0, _pow_floor(A, m - Z, X)))


def zero_mark_hundredths(gender, event, live):
    co = coefficients(gender, event, live)
    Z = Decimal(co[1])
    return int(Z) if kind_of(event) == 'j' else int(Z * 100)
