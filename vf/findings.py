"""known_findings.json loader.  The file is committed and never written at run time.

Format: {"known": [{"property": "C10", "key": "<mechanism key>", "what": "<text>"} ...],
         "fixed": ["fixed: property=<id> <commit> <what failed>", ...]}

A *mechanism key* is produced by the property's own classifier from the violated clause and
a predicate over the input (never from a hash, seed or random value).  Only keys listed
under "known" are reported as KNOWN-FINDING; "fixed" entries suppress nothing.
"""
import json
import os

from .core import VERIF


def load_known(prop):
    p = os.path.join(VERIF, 'known_findings.json')
    if not os.path.exists(p):
        return {}
    with open(p, encoding='utf-8') as f:
        data = json.load(f)
    return {e['key']: e.get('what', '') for e in data.get('known', []) if e.get('property') == prop}
