"""Regenerates MANIFEST.json from the table below (keeps it schema-valid at all times)."""
import json, os
HERE = os.path.dirname(os.path.abspath(__file__))
TEST = "cd /repo && /venv/bin/python -m pytest -ra -q -p no:cacheprovider --timeout=900 --continue-on-collection-errors"
CHECKS = {}
def add(pid, technique, text, note, ref):
    CHECKS[pid] = dict(property_id=pid, quick_cmd="./check %s --tier quick" % pid,
        thorough_cmd="./check %s --tier thorough" % pid, evidence_file="/verif/evidence/%s.json" % pid,
        replay_cmd_template="./check %s --replay {path}" % pid, engine="vf",
        level_claimed=dict(category="exploration", text=text, design_ref="DESIGN.md section 3.%s" % pid),
        level_note=note, technique=technique)
NA = []
exec(open(os.path.join(HERE, 'manifest_table.py')).read())
m = dict(version=1, setup_cmd="./setup.sh",
    hooks=dict(guard="OPENATH_ATHLIB_VERIF", enable="no source hooks: monitors are attached from the harness (vf/attach.py) to the functions imported from /repo's working tree",
               baseline_off_cmd=TEST, source_commits=[], add_only=True),
    engines=[dict(name="vf", path="/verif/vf", serves_properties=sorted(CHECKS),
                  kind_free_text="runtime monitors (recorders, icontract contracts, pattern proxies, line-event scheduler, node bridge) attached to the real athlib code, driven by sharded generated workloads; reference-model oracles; shards rotate hash seed / cwd / -O / warnings-as-errors, every fifth real call runs under an unusual decimal context, repeated calls are compared with their first answer and first answers with a fresh interpreter")],
    checks=[CHECKS[k] for k in sorted(CHECKS)],
    notes="Exit 0 held / 1 VIOLATION / 2 INCONCLUSIVE. Known findings keyed by mechanism in known_findings.json. See DESIGN.md.",
    not_applicable=NA)
json.dump(m, open(os.path.join(HERE, 'MANIFEST.json'), 'w'), indent=1)
import jsonschema
jsonschema.validate(m, json.load(open('/root/.vp/MANIFEST.schema.json')))
print('MANIFEST ok:', len(m['checks']), 'checks,', len(NA), 'not applicable')
