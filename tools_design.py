"""Regenerates the generated blocks of DESIGN.md (fixed / known findings lists, seeded-change table) from
known_findings.json and seeded/*/meta.json.  Blocks are delimited by <!-- BEGIN:x --> / <!-- END:x -->."""
import glob
import json
import os
import re

HERE = os.path.dirname(os.path.abspath(__file__))


def block(s, name, body):
    pat = re.compile(r'(<!-- BEGIN:%s -->\n)(.*?)(\n<!-- END:%s -->)' % (name, name), re.S)
    assert pat.search(s), name
    return pat.sub(lambda m: m.group(1) + body + m.group(3), s)


def main():
    kf = json.load(open(os.path.join(HERE, 'known_findings.json')))
    fixed = '\n'.join('* ' + x for x in kf['fixed'])
    known = '\n'.join('* `%s` **%s** - %s' % (k['property'], k['key'], k['what']) for k in kf['known'])
    rows = ['| id | property | change (summary) | needs | caught by (mechanism keys) |', '|----|----|----|----|----|']
    n = det = 0
    for d in sorted(glob.glob(os.path.join(HERE, 'seeded', '*'))):
        try:
            m = json.load(open(os.path.join(d, 'meta.json')))
        except Exception:
            continue
        c = m.get('confirmed', {})
        mech = []
        for pp, x in c.get('checks', {}).items():
            for mm in x['mechanisms'][:2]:
                mech.append(pp + ': `' + mm.split(' cases')[0].replace('mechanism=', '')[:80] + '`')
        summ = str(m.get('summary', '')).replace('\n', ' ').replace('|', '/')[:170]
        need = str(m.get('needs_to_manifest', '')).replace('\n', ' ').replace('|', '/')[:150]
        n += 1
        det += bool(c.get('detected'))
        rows.append('| %s | %s | %s | %s | %s |' % (os.path.basename(d), m.get('property'), summ, need,
                                                    '; '.join(mech) if c.get('detected') else '**MISSED**'))
    rows.append('')
    rows.append('%d confirmed seeded changes, %d caught by the quick tier of the owning property\'s check.' % (n, det))
    p = os.path.join(HERE, 'DESIGN.md')
    s = open(p).read()
    s = block(s, 'FIXED', fixed)
    s = block(s, 'KNOWN', known)
    s = block(s, 'SEEDED', '\n'.join(rows))
    open(p, 'w').write(s)
    print('DESIGN.md blocks regenerated: %d fixed, %d known, %d seeded (%d caught)' % (len(kf['fixed']), len(kf['known']), n, det))


if __name__ == '__main__':
    main()
