"""Pins the calling signatures of athlib's public functions (parameter order) on the current tree -> api_signatures.json.
Used by attach.monitor to turn keyword arguments into positional ones the way a caller written against the pinned API would
(an optional parameter inserted before an existing one, or two parameters swapped, changes the meaning of such a call)."""
import inspect
import json
import os
import sys

HERE = os.path.dirname(os.path.abspath(__file__))
sys.path.insert(0, os.environ.get('VERIF_REPO', '/repo'))
import athlib  # noqa

out = {}
mods = [m for n, m in sorted(sys.modules.items()) if m is not None and (n == 'athlib' or n.startswith('athlib.'))]
for m in mods:
    for k, v in sorted(vars(m).items()):
        if k.startswith('_') or not inspect.isfunction(v):
            continue
        try:
            ps = list(inspect.signature(v).parameters.values())
        except (TypeError, ValueError):
            continue
        if all(p.kind == p.POSITIONAL_OR_KEYWORD for p in ps):
            out['%s.%s' % (m.__name__, k)] = [p.name for p in ps]
            # literal defaults (numbers, text, None, booleans), so that a positional call can fill a gap the way the caller would
            dv = {p.name: p.default for p in ps if p.default is not p.empty and (p.default is None or isinstance(p.default, (bool, int, float, str)))}
            if dv:
                out['%s.%s#defaults' % (m.__name__, k)] = dv
json.dump(out, open(os.path.join(HERE, 'api_signatures.json'), 'w'), indent=1, sort_keys=True)
print(len(out), 'signatures pinned')
