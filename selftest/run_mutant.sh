#!/bin/bash
# usage: selftest/run_mutant.sh <patch.diff> <PROP> [PROP...]   (env TIER=quick|thorough, SKIPTESTS=1)
# Applies the patch to a scratch worktree of /repo (outside /repo and /verif), runs the pinned
# suite there (must still pass 92) and the named checks with VERIF_REPO=<scratch>; removes the worktree.
set -u
PATCH=$(readlink -f "$1"); shift
WT=$(mktemp -d /tmp/vf-mut-XXXXXX)
rmdir "$WT"
git -C /repo worktree add -q --detach "$WT" HEAD || exit 3
cleanup() { git -C /repo worktree remove --force "$WT" 2>/dev/null; rm -rf "$WT"; }
trap cleanup EXIT
if ! git -C "$WT" apply "$PATCH"; then echo "PATCH-DOES-NOT-APPLY"; exit 3; fi
if [ -z "${SKIPTESTS:-}" ]; then
  T=$(cd "$WT" && /venv/bin/python -m pytest -q -p no:cacheprovider --timeout=900 --continue-on-collection-errors 2>&1 | tail -1)
  echo "suite: $T"
fi
cd /verif
rc_all=0
for P in "$@"; do
  VERIF_REPO="$WT" VERIF_NOEVIDENCE=1 ./check "$P" --tier "${TIER:-quick}" > "$WT.out" 2>&1; rc=$?
  echo "check $P rc=$rc: $(grep -c '^VIOLATION' "$WT.out") violation lines"
  grep -A1 '^VIOLATION' "$WT.out" | grep mechanism | head -5
  grep '^INCONCLUSIVE' "$WT.out" | head -3
  rm -f "$WT.out"
done
