#!/venv/bin/python
"""Evaluate seeded property-breaking changes against the checks.

usage: selftest/eval_seeded.py [--src /tmp/seeded] [--tier quick] [--keep] ID [ID...]   (ID like C01-a; 'all' = every dir)

For each change: scratch worktree of /repo HEAD (outside /repo and /verif) -> demo on the
clean tree (must pass) -> apply patch (3-way fallback) -> pinned suite (must keep the 92)
-> demo (must fail) -> ./check <PROP> with VERIF_REPO=<scratch> (must exit 1 with a
VIOLATION line) -> worktree removed.  Results are appended to selftest/seeded_results.jsonl
and, with --keep, confirmed changes are copied to /verif/seeded/<ID>/.
"""
import argparse
import json
import os
import shutil
import subprocess
import sys
import tempfile
import time

VERIF = os.path.dirname(os.path.dirname(os.path.abspath(__file__)))
SUITE = ['/venv/bin/python', '-m', 'pytest', '-q', '-p', 'no:cacheprovider', '--timeout=900', '--continue-on-collection-errors']


def sh(cmd, cwd=None, env=None, timeout=3600):
    p = subprocess.run(cmd, cwd=cwd, env=env, stdout=subprocess.PIPE, stderr=subprocess.STDOUT, text=True, timeout=timeout)
    return p.returncode, p.stdout


def evaluate(src, ident, tier, keep, props=None):
    d = os.path.join(src, ident)
    prop = ident.split('-')[0]
    res = {'id': ident, 'property': prop, 'tier': tier, 'at': time.strftime('%Y-%m-%dT%H:%M:%S')}
    wt = tempfile.mkdtemp(prefix='vf-seed-', dir='/tmp')
    os.rmdir(wt)
    sh(['git', '-C', '/repo', 'worktree', 'add', '-q', '--detach', wt, 'HEAD'])
    try:
        res['repo_head'] = sh(['git', '-C', '/repo', 'rev-parse', '--short', 'HEAD'])[1].strip()
        demo = os.path.join(d, 'demo.py')
        rc, out = sh(['/venv/bin/python', demo], cwd=wt, timeout=900)
        res['demo_clean_rc'] = rc
        rc, out = sh(['git', 'apply', os.path.join(d, 'patch.diff')], cwd=wt)
        if rc != 0:
            rc, out = sh(['git', 'apply', '-3', os.path.join(d, 'patch.diff')], cwd=wt)
            res['applied'] = '3way' if rc == 0 else 'FAILED: ' + out[-300:]
        else:
            res['applied'] = 'clean'
        if rc != 0:
            return res
        rc, out = sh(SUITE, cwd=wt)
        res['suite'] = out.strip().splitlines()[-1] if out.strip() else ''
        rc, out = sh(['/venv/bin/python', demo], cwd=wt, timeout=900)
        res['demo_patched_rc'] = rc
        res['demo_patched_tail'] = out.strip()[-300:]
        env = dict(os.environ, VERIF_REPO=wt, VERIF_NOEVIDENCE='1')
        res['checks'] = {}
        for p in (props or [prop]):
            t = time.time()
            rc, out = sh([os.path.join(VERIF, 'check'), p, '--tier', tier], cwd=VERIF, env=env, timeout=7200)
            mech = [l.strip() for l in out.splitlines() if l.strip().startswith('mechanism=')]
            res['checks'][p] = {'rc': rc, 'violation_lines': out.count('\nVIOLATION') + out.startswith('VIOLATION'),
                                'mechanisms': [m[:200] for m in mech[:6]], 'wall': round(time.time() - t, 1),
                                'inconclusive': [l for l in out.splitlines() if l.startswith('INCONCLUSIVE')][:3]}
        res['detected'] = any(c['rc'] == 1 for c in res['checks'].values())
        if keep and res.get('demo_clean_rc') == 0 and res.get('demo_patched_rc') not in (0, None) and '92 passed' in res.get('suite', ''):
            dst = os.path.join(VERIF, 'seeded', ident)
            os.makedirs(dst, exist_ok=True)
            # store the patch as it applies to the current HEAD
            # against HEAD (a 3-way apply stages its result) and as bytes (some bundled files have CRLF line ends)
            with open(os.path.join(dst, 'patch.diff'), 'wb') as f:
                subprocess.run(['git', 'diff', 'HEAD'], cwd=wt, stdout=f)
            if os.path.abspath(demo) != os.path.abspath(os.path.join(dst, 'demo.py')):
                shutil.copy(demo, os.path.join(dst, 'demo.py'))
            try:
                meta = json.load(open(os.path.join(d, 'meta.json')))
            except Exception:
                meta = {}
            meta['property'] = prop
            meta['confirmed'] = {
                'repo_head': res['repo_head'], 'patch_applied': res['applied'], 'pinned_suite_with_change': res['suite'],
                'demo_on_clean_tree_rc': res['demo_clean_rc'], 'demo_with_change_rc': res['demo_patched_rc'],
                'what_i_ran': 'selftest/eval_seeded.py %s (scratch worktree of /repo HEAD; suite, demo before/after, ./check %s --tier %s with VERIF_REPO)' % (ident, prop, tier),
                'checks': res['checks'], 'detected': res['detected'],
            }
            with open(os.path.join(dst, 'meta.json'), 'w') as f:
                json.dump(meta, f, indent=1)
    finally:
        sh(['git', '-C', '/repo', 'worktree', 'remove', '--force', wt])
        shutil.rmtree(wt, ignore_errors=True)
    return res


def main():
    ap = argparse.ArgumentParser()
    ap.add_argument('--src', default='/tmp/seeded')
    ap.add_argument('--tier', default='quick')
    ap.add_argument('--keep', action='store_true')
    ap.add_argument('--props', help='comma separated checks to run instead of the owning property')
    ap.add_argument('ids', nargs='+')
    a = ap.parse_args()
    ids = a.ids
    if ids == ['all']:
        ids = sorted(x for x in os.listdir(a.src) if os.path.isdir(os.path.join(a.src, x)) and os.path.exists(os.path.join(a.src, x, 'patch.diff')))
    for ident in ids:
        r = evaluate(a.src, ident, a.tier, a.keep, a.props.split(',') if a.props else None)
        with open(os.path.join(VERIF, 'selftest', 'seeded_results.jsonl'), 'a') as f:
            f.write(json.dumps(r) + '\n')
        chk = r.get('checks', {})
        print('%-7s applied=%-6s suite=%-28s demo clean/patched=%s/%s  %s' % (
            ident, str(r.get('applied'))[:6], r.get('suite', '')[:28], r.get('demo_clean_rc'), r.get('demo_patched_rc'),
            ' '.join('%s:rc=%s(%ss)' % (p, c['rc'], c['wall']) for p, c in chk.items())))
        for p, c in chk.items():
            for m in c['mechanisms'][:3]:
                print('         ', m[:170])
            for m in c['inconclusive'][:2]:
                print('         ', m[:170])
        sys.stdout.flush()


if __name__ == '__main__':
    main()
