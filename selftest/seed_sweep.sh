#!/bin/bash
# usage: selftest/seed_sweep.sh "1 2 3" [quick|thorough] [IDs...]  - runs every check for each seed, prints one line per non-quiet run
cd "$(dirname "$0")/.." || exit 2
SEEDS=${1:-"1 2 3"}; TIER=${2:-quick}; shift; shift
IDS=${@:-C01 C02 C03 C04 C05 C06 C07 C08 C09 C10 C11 C12 C13 C14 C15 C16 C17 C18 C19}
mkdir -p logs
for S in $SEEDS; do for P in $IDS; do
  VERIF_SEED=$S VERIF_NOEVIDENCE=1 ./check $P --tier $TIER > logs/sweep.$P.$S.log 2>&1; rc=$?
  if [ $rc -ne 0 ]; then echo "seed=$S $P rc=$rc: $(grep -m3 -E '^(VIOLATION|INCONCLUSIVE|  mechanism)' logs/sweep.$P.$S.log | cut -c1-220 | tr '\n' ' ')"; fi
done; echo "seed $S done"; done
