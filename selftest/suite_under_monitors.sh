#!/bin/bash
# Runs the pinned test-suite of the repository (default /repo, or $VERIF_REPO) with all in-process monitors attached.
R=${VERIF_REPO:-/repo}
cd "$R" || exit 2
PYTHONHASHSEED=0 PYTHONPATH=/verif VERIF_REPO=$R /venv/bin/python -m pytest -q -p no:cacheprovider -p vf.pytest_plugin --timeout=900 --continue-on-collection-errors 2>&1 | tail -5
/venv/bin/python - <<'PY'
import json
d=json.load(open('/verif/logs/suite_under_monitors.json'))
for k,v in d.items():
    print(k, 'evaluations', v['evaluations'], 'violations', {m: x['count'] for m,x in v['violations'].items()} or 'none')
PY
