#!/venv/bin/python
"""Print, per property, the anchored lines the last run did NOT execute (with their source text).
usage: tools_cover_report.py [evidence dir, default evidence] [IDs...]"""
import json
import os
import sys

VERIF = os.path.dirname(os.path.abspath(__file__))


def main():
    args = sys.argv[1:]
    d = os.path.join(VERIF, 'evidence')
    if args and os.path.isdir(args[0]):
        d = args.pop(0)
    ids = args or ['C%02d' % i for i in range(1, 20)]
    for pid in ids:
        for name in ('%s.json' % pid, 'evidence-%s.json' % pid):
            p = os.path.join(d, name)
            if os.path.exists(p):
                break
        else:
            continue
        ev = json.load(open(p))
        rep = ev['coverage'].get('anchor_line_coverage')
        if not rep:
            print(pid, 'no coverage report')
            continue
        repo = ev['coverage'].get('repo', '/repo')
        print('%s %s: %d/%d anchored lines executed; unreached functions: %s' % (
            pid, ev['tier'], rep['anchored_lines_executed'], rep['anchored_lines'], rep['unreached_functions'] or '-'))
        for k, f in rep['functions'].items():
            if not f['not_executed_lines']:
                continue
            path = k.split(':')[0]
            try:
                src = open(os.path.join(repo, path)).read().splitlines()
            except Exception:
                src = []
            print('   %s  %d/%d' % (k, f['executed'], f['executable_lines']))
            for l in f['not_executed_lines']:
                print('      %4d  %s' % (l, src[l - 1].strip()[:110] if l <= len(src) else ''))


if __name__ == '__main__':
    main()
